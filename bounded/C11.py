"""Bounded stand-in for C11: reusing saved module results reproduces the original results.

The real pipeline pieces are used throughout (main.run_detection -> main.run_module ->
module.regenerate_previous_results / run_on_record, main.analyse_record, main.annotate_records,
serialiser.AntismashResults.write_to_file / from_file); only the external binaries are scripted
(see _c11_world.py).  Modules covered: sideloader, full_hmmer, hmm_detection (RuleDetectionResults,
CDSResults, protoclusters serialised as features), nrps_pks_domains (HMMResult with internal hits,
Module/Component re-validated on load, modules across gene pairs), cluster_hmmer, tta.

family "pipe"   a generated record (islands of scripted gene types at boundary positions: start 0,
                end == record length, a gene / a gap / a neighbourhood over the origin of a circular
                record, two islands close or far apart) is run once (results x), every module's
                results are saved (j1 = json.dumps(x.to_json())), a second run on the same record
                (rebuilt from the same description, or read back from the written results file exactly
                as main.read_data does) regenerates them (y, j2) and a third run regenerates from j2 (j3).
                Required: j1 == j2 == j3 byte for byte per module, and the annotated records of run 1
                and run 2 carry the same features/qualifiers for every feature type that module results
                add (protocluster, proto_core, subregion, CDS annotations, aSDomain, CDS_motif, aSModule,
                PFAM_domain, misc_feature; candidate clusters and regions are derived by the record and
                belong to other properties).  The reuse run is also done the way `--reuse-results` is
                normally used: without the optional module flags (saved results must be regenerated and kept).
family "guard"  after run 1 one thing is changed before the reuse run: schema version inside the saved
                JSON (higher and lower), the record id, strictness / rule subset / saved rule names / fungal
                multipliers, saved hmmer thresholds stricter than the module's limits, pfam database
                version.  Required: the saved results are refused (exception) or discarded (nothing
                regenerated, or the module reran and the regenerated object is not the final one).
                Two documented reuses under a changed setting are checked against their meaning instead:
                tta threshold (saved/new each below, equal to, above the GC content): refusal, discard,
                or exactly the JSON a fresh run under the new threshold gives; hmmer results saved with
                more lenient thresholds (hits on both sides of and on the limits): what is kept is a subset
                of the saved hits, none outside the current limits, labelled with limits not more lenient.
family "direct" RuleDetectionResults built directly from CDSResults whose definition-domain sets are
                chosen in-process so that their iteration order is not stable under list(set(list(s)))
                (makes the hash-seed dependent finding C11-F1 deterministic).
"""
from __future__ import annotations

import json as std_json
import os
import shutil
import tempfile
import traceback
from typing import Any, Iterator
from unittest import mock

from bounded import _c11_world as W

RULE = ("pipe: explicit finite list = (island type x position pattern x strand) exhaustively plus island pairs at two "
        "distances, with sideload mode, tta threshold relation, taxon, strictness, history (rebuilt record / results "
        "file read back) and reuse flags (same / optional module flags absent) cycled over it; a (case, module) "
        "evaluation is non-trivial when the module produced non-empty results in run 1 AND run 2 really regenerated "
        "them from JSON (regenerate_previous_results returned an object); distinct by (case, module). "
        "guard: explicit list of (base record x changed thing); non-trivial when run 1 produced non-empty results "
        "for the guarded module.  thorough adds the full product of the secondary dimensions and seeded random "
        "multi-island records.")
EXHAUSTIVE = {"quick": True, "thorough": False}

SHORT = {"antismash.detection.sideloader": "sideloader", "antismash.detection.full_hmmer": "full_hmmer",
         "antismash.detection.hmm_detection": "hmm_detection",
         "antismash.detection.nrps_pks_domains": "nrps_pks_domains",
         "antismash.detection.cluster_hmmer": "cluster_hmmer", "antismash.modules.tta": "tta"}
LONG = {short: name for name, short in SHORT.items()}

Outcome = list  # of (clause, ok, nontrivial, detail, key)


# ----------------------------------------------------------------------------------------------
# islands and positions
# ----------------------------------------------------------------------------------------------
ISLANDS: dict[str, list[str]] = {
    "pks1": ["pks1"], "pks_pair": ["pks_head", "pks_tail"], "pks_iter": ["pks_iter"], "pks_2mod": ["pks_2mod"],
    "nrps1": ["nrps1"], "nrps2": ["nrps2"], "nrps_pair": ["nrps_head", "nrps_tail"], "nrpslike": ["nrpslike"],
    "transat": ["transat"], "transat_pair": ["transat_head", "transat_tail"], "cal": ["cal", "pks1"],
    "doublecp": ["doublecp"], "hybrid": ["hybrid"], "hybrid_mix": ["pks1", "nrps1"],
    "lanc2": ["lanc2"], "lan_pair": ["lanB", "plain", "lanC"], "t3pks": ["t3pks"], "ectoine": ["ectoine", "pfam_only"],
    "cdps": ["cdps"], "melanin": ["melanin", "lone_dom"], "hrt2": ["hrt2"], "ladderane": ["hrt2", "rsam"],
    "t2pks": ["t2ks", "t2clf"], "mycosporine": ["mycosporine", "myc_ext"], "weak": ["weakhit", "pfam_only"],
}
GENE_GAP = 150
POSITIONS_LINEAR = ["mid", "start0", "end"]
POSITIONS_CIRCULAR = ["mid", "cross-gene", "cross-gap", "near0", "end-exact"]
SIDES = ["none", "simple", "cds", "file", "file+simple"]
TTAS = ["below", "eq", "above"]
HISTS = ["rebuilt", "file"]
STRICTNESS = ["relaxed", "strict", "relaxed", "loose", "relaxed"]
FLAGS = ["same", "same", "bare", "same"]   # bare: the reuse run is started without the optional module flags


def _island_genes(island: str, anchor: int, strand: int, length: int, circular: bool,
                  origin_gap_after: int = -1) -> list[list]:
    """ genes of the island from anchor on; strand -1 reverses the gene order so that pairs stay in
        biological order; origin_gap_after=i puts the record origin into the gap after gene i """
    types = list(ISLANDS[island])
    if strand == -1:
        types.reverse()
    genes = []
    pos = anchor
    for index, gtype in enumerate(types):
        start = pos % length if circular else pos
        genes.append([start, strand, gtype])
        pos += W.gene_len(gtype) + GENE_GAP
        if index == origin_gap_after:
            pos = length + 90       # next gene starts 90 bases after the origin
    return genes


def _island_len(island: str) -> int:
    return sum(W.gene_len(t) for t in ISLANDS[island]) + GENE_GAP * (len(ISLANDS[island]) - 1)


def _single_spec(island: str, position: str, strand: int, circular: bool) -> dict:
    length = 76000 + 3 * len(island)          # odd and even lengths occur
    ilen = _island_len(island)
    first_len = W.gene_len(ISLANDS[island][0 if strand == 1 else -1])
    gap_after = -1
    if position == "mid":
        anchor = length // 2 - ilen // 2
    elif position == "start0":
        anchor = 0
    elif position in ("end", "end-exact"):
        anchor = length - ilen
    elif position == "cross-gene":
        anchor = length - first_len // 2
    elif position == "cross-gap":
        if len(ISLANDS[island]) < 2:
            anchor = length - first_len          # the single gene ends exactly at the origin
        else:
            anchor = length - first_len - 60     # origin lies in the first gap
            gap_after = 0
    elif position == "near0":
        anchor = 1500
    else:
        raise AssertionError(position)
    genes = _island_genes(island, anchor, strand, length, circular, gap_after)
    # filler genes well away from the island: one plain, one with pfam hits only
    occupied = [(g[0], g[0] + W.gene_len(g[2])) for g in genes]
    for offset, gtype in ((length // 4, "plain"), (3 * length // 4, "pfam_only"), (length // 2 + 9000, "weakhit")):
        start = (anchor + offset) % length
        end = start + W.gene_len(gtype)
        if end > length:
            continue
        if all(end + 200 < lo or start > hi + 200 for lo, hi in occupied) and \
                all(not (lo >= length and start < hi - length + 200) for lo, hi in occupied):
            genes.append([start, -1 if gtype == "pfam_only" else 1, gtype])
            occupied.append((start, end))
    genes.sort(key=lambda g: g[0])
    return {"L": length, "circ": int(circular), "sd": 1 + len(island) % 2, "gc": 70, "genes": genes}


def _pair_spec(first: str, second: str, gap: int, circular: bool) -> dict:
    length = 150001
    anchor = 30000
    genes = _island_genes(first, anchor, 1, length, circular)
    second_anchor = anchor + _island_len(first) + gap
    genes += _island_genes(second, second_anchor, -1, length, circular)
    genes.append([second_anchor + _island_len(second) + 700, 1, "pfam_only"])
    genes.append([1200, -1, "plain"])
    genes.sort(key=lambda g: g[0])
    return {"L": length, "circ": int(circular), "sd": 3, "gc": 70, "genes": genes}


PAIR_ISLANDS = ["pks1", "nrps2", "transat_pair", "lanc2", "ectoine", "ladderane", "hybrid", "nrpslike", "cdps"]


def _pipe_cases(tier: str) -> Iterator[dict]:
    index = 0
    specs: list[tuple[str, dict]] = []
    for island in ISLANDS:
        for circular, positions in ((False, POSITIONS_LINEAR), (True, POSITIONS_CIRCULAR)):
            for position in positions:
                for strand in (1, -1):
                    specs.append((f"{island}/{position}/{strand}", _single_spec(island, position, strand, circular)))
    for first in PAIR_ISLANDS:
        for second in PAIR_ISLANDS:
            for gap in (900, 52000):
                specs.append((f"{first}+{second}/{gap}", _pair_spec(first, second, gap, (len(first) + gap) % 2 == 0)))
    for label, spec in specs:
        if tier == "quick":
            combos = [(SIDES[index % len(SIDES)], TTAS[(index // 2) % len(TTAS)], HISTS[(index // 3) % len(HISTS)],
                       "fungi" if index % 7 == 3 and not spec["circ"] else "bacteria",
                       STRICTNESS[index % 11 % len(STRICTNESS)])]
        else:
            combos = [(side, tta, hist, taxon, STRICTNESS[(index + k) % len(STRICTNESS)])
                      for k, (side, tta, hist, taxon) in enumerate(
                          (side, tta, hist, taxon) for side in SIDES for tta in TTAS for hist in HISTS
                          for taxon in (("bacteria",) if spec["circ"] else ("bacteria", "fungi")))]
        for k, (side, tta, hist, taxon, strictness) in enumerate(combos):
            yield {"family": "pipe", "label": label, "rec": spec, "side": side, "tta": tta, "hist": hist,
                   "taxon": taxon, "strictness": strictness, "flags": FLAGS[(index + k) % len(FLAGS)]}
        index += 1


# ----------------------------------------------------------------------------------------------
# settings derived from a case
# ----------------------------------------------------------------------------------------------
def _sideload_settings(case: dict, record: Any, scratch: str) -> dict:
    """ sideload options for the case; annotations are placed around genes of the record so that every
        area contains a complete CDS """
    side = case.get("side", "none")
    settings: dict[str, Any] = {}
    if side == "none":
        return settings
    spec = case["rec"]
    length = spec["L"]
    circular = bool(spec["circ"])
    plain = [f"g{i}" for i, g in enumerate(spec["genes"]) if g[2] in ("weakhit", "plain", "pfam_only")]
    plain.sort(key=lambda name: spec["genes"][int(name[1:])][2] != "weakhit")
    cdses = {cds.get_name(): cds for cds in record.get_cds_features()}
    inner = [cds for cds in cdses.values() if len(cds.location.parts) == 1]
    target = inner[len(inner) // 2]
    for index, gene in enumerate(spec["genes"]):
        # prefer a gene with hits that define no protocluster: gives CDS results outside protoclusters
        if gene[2] == "weakhit" and len(cdses[f"g{index}"].location.parts) == 1:
            target = cdses[f"g{index}"]
            break
    if side in ("simple", "file+simple"):
        start = max(0, target.location.start - 777)
        end = min(length, target.location.end + 1234)
        settings["sideload_simple"] = f"{record.id}:{start}-{end}"
    if side == "cds":
        settings["sideload_cds"] = plain[:2] or [target.get_name()]
        settings["sideload_pad"] = 1501
    if side in ("file", "file+simple"):
        first, last = inner[0], inner[-1]
        subregions = [{"start": max(0, first.location.start - 10), "end": min(length, first.location.end + 2000),
                       "label": "Type I PKS?", "details": {"score": "6.5", "multi.value": ["first", "second"]}},
                      {"start": max(0, target.location.start - 3000), "end": min(length, target.location.end + 1),
                       "label": "unicode é中"}]
        protoclusters = [{"core_start": int(last.location.start), "core_end": int(last.location.end),
                          "product": "T1PKS", "neighbourhood_left": min(1500, int(last.location.start)),
                          "neighbourhood_right": min(300, length - int(last.location.end)),
                          "details": {"some_option_name": "no"}},
                         {"core_start": int(target.location.start), "core_end": int(target.location.end),
                          "product": "custom-product_1"}]
        if circular:
            # an area over the origin: from the last simple gene to the first one
            subregions.append({"start": int(last.location.start), "end": int(first.location.end), "label": "over origin"})
            protoclusters.append({"core_start": int(last.location.start), "core_end": int(first.location.end),
                                  "product": "NRPS", "neighbourhood_left": 100, "neighbourhood_right": 50})
        data = {"tool": {"name": "side tool-x", "version": "1.2.3", "description": "generated",
                         "configuration": {"setting1name": "value", "multisetting": ["a", "b"]}},
                "records": [{"name": record.id, "subregions": subregions, "protoclusters": protoclusters},
                            {"name": "some-other-record", "subregions": [{"start": 1, "end": 50, "label": "x"}]}]}
        path = os.path.join(scratch, "sideload.json")
        with open(path, "w", encoding="utf-8") as handle:
            std_json.dump(data, handle)
        settings["sideload"] = [path]
    return settings


def _tta_threshold(mode: str, gc_content: float) -> float:
    if mode == "eq":
        return gc_content
    if mode == "below":
        return max(0.0, gc_content - 0.05)
    return min(1.0, gc_content + 0.05)


def _base_settings(case: dict, record: Any, scratch: str) -> dict:
    settings = _sideload_settings(case, record, scratch)
    settings["tta_threshold"] = _tta_threshold(case.get("tta", "below"), record.get_gc_content())
    settings["taxon"] = case.get("taxon", "bacteria")
    settings["strictness"] = case.get("strictness", "relaxed")
    return settings


# ----------------------------------------------------------------------------------------------
# observations
# ----------------------------------------------------------------------------------------------
def _nonempty(short: str, text: str) -> bool:
    data = std_json.loads(text)
    if short == "sideloader":
        return bool(data["protoclusters"] or data["subregions"])
    if short in ("full_hmmer", "cluster_hmmer"):
        return bool(data["hits"])
    if short == "hmm_detection":
        return bool(data["rule_results"]["cds_by_protocluster"] or data["rule_results"]["outside_protoclusters"])
    if short == "nrps_pks_domains":
        return bool(data["cds_results"])
    if short == "tta":
        return bool(data["TTA codons"])
    return True


def _canon_rules(text: str) -> str:
    """ hmm_detection JSON with every definition_domains value sorted (the only set-valued field) """
    data = std_json.loads(text)

    def fix(cds_result: dict) -> None:
        for key, val in cds_result.get("definition_domains", {}).items():
            cds_result["definition_domains"][key] = sorted(val)
    rules = data.get("rule_results", data)
    for _cluster, cds_results in rules.get("cds_by_protocluster", []):
        for cds_result in cds_results:
            fix(cds_result)
    for cds_result in rules.get("outside_protoclusters", []):
        fix(cds_result)
    return std_json.dumps(data, sort_keys=False)


def _first_diff(one: str, two: str) -> str:
    if one == two:
        return ""
    pos = next((i for i, (a, b) in enumerate(zip(one, two)) if a != b), min(len(one), len(two)))
    return f"first difference at char {pos}: ...{one[max(0, pos - 60):pos + 80]!r} vs ...{two[max(0, pos - 60):pos + 80]!r}"


class _Spy:
    """ records whether each module's run_on_record received previous results, and what
        regenerate_previous_results handed back """
    def __init__(self) -> None:
        self.reused: dict[str, bool] = {}
        self.regenerated: dict[str, Any] = {}
        self.stack: Any = None

    def __enter__(self) -> "_Spy":
        from contextlib import ExitStack  # pylint: disable=import-outside-toplevel
        self.stack = ExitStack()
        for name, module in W.am()["modules"].items():
            real = module.run_on_record
            real_regen = module.regenerate_previous_results

            def wrapper(record: Any, previous: Any, options: Any, _real: Any = real, _name: str = name) -> Any:
                self.reused[_name] = previous is not None
                return _real(record, previous, options)

            def regen(previous: Any, record: Any, options: Any, _real: Any = real_regen, _name: str = name) -> Any:
                result = _real(previous, record, options)
                self.regenerated[_name] = result
                return result
            self.stack.enter_context(mock.patch.object(module, "run_on_record", wrapper))
            self.stack.enter_context(mock.patch.object(module, "regenerate_previous_results", regen))
        return self

    def __exit__(self, *args: Any) -> None:
        self.stack.close()


def _tb(err: BaseException) -> str:
    return "".join(traceback.format_exception(type(err), err, err.__traceback__))[-1500:]


def _module_in_traceback(err: BaseException) -> str:
    text = _tb(err)
    for name, short in SHORT.items():
        if name.replace(".", "/") in text:
            return short
    if "hmm_rule_parser" in text:
        return "hmm_detection"
    if "hmmer.py" in text:
        return "hmmer"
    return "?"


# ----------------------------------------------------------------------------------------------
# family "pipe"
# ----------------------------------------------------------------------------------------------
# feature types that module results add to a record (candidate clusters and regions are derived by
# the record itself from these and are another property's business)
ADDED_TYPES = ["protocluster", "proto_core", "subregion", "CDS", "aSDomain", "CDS_motif", "aSModule",
               "PFAM_domain", "misc_feature"]
_WORLD: dict[str, Any] = {}


def _world(root: str) -> W.World:
    """ the scratch world (fake databases) of this process; rebuilt if its directory vanished """
    world = _WORLD.get("w")
    if world is None or not os.path.isdir(world.dbdir):
        world = W.World(root)
        _WORLD["w"] = world
    return world


def _second_record(case: dict, record1: Any, results1: dict, scratch: str, tag: str) -> tuple[Any, dict]:
    """ the record and the previous-results JSON for a reuse run, per the case's history """
    mods = W.am()
    if case.get("hist", "rebuilt") == "rebuilt":
        previous = {name: mods["json"].loads(text) for name, text in W.results_json(results1).items()}
        return W.build_record(case["rec"]), previous
    # exactly what main does: write the results file (before annotate_records), read it back, strip
    holder = mods["serialiser"].AntismashResults("input.gbk", [record1], [results1], "8.dev",
                                                 taxon=case.get("taxon", "bacteria"))
    path = os.path.join(scratch, f"results-{tag}.json")
    holder.write_to_file(path)
    loaded = mods["serialiser"].AntismashResults.from_file(path)
    record = loaded.records[0]
    record.strip_antismash_annotations()
    return record, dict(loaded.results[0])


def _split_gene_functions(entries: list) -> tuple[list, list]:
    """ CDS entries with the gene_functions values sorted, and separately the values in their order """
    canon, order = [], []
    for location, quals in entries:
        fixed = []
        for key, vals in quals:
            if key == "gene_functions":
                order.append([location, list(vals)])
                vals = sorted(vals)
            fixed.append((key, vals))
        canon.append([location, fixed])
    return canon, order


def _compare_dumps(case: dict, dump1: dict, dump2: dict) -> Outcome:
    out: Outcome = []
    for ftype in ADDED_TYPES:
        one, two = dump1.get(ftype, []), dump2.get(ftype, [])
        if not one and not two:
            continue
        order_pair = None
        if ftype == "CDS":
            one, order1 = _split_gene_functions(one)
            two, order2 = _split_gene_functions(two)
            order_pair = (order1, order2)
        same = one == two
        detail = ""
        if not same:
            only1 = [e for e in one if e not in two][:2]
            only2 = [e for e in two if e not in one][:2]
            detail = f"{len(one)} vs {len(two)} features; only after run 1: {only1!r}; only after reuse: {only2!r}"
        out.append((f"same-annotations[{ftype}]", same, True, detail[:1800], {"case": case, "type": ftype}))
        if order_pair and same:
            same_order = order_pair[0] == order_pair[1]
            diff = next(((a, b) for a, b in zip(*order_pair) if a != b), None)
            out.append(("same-gene-function-order[CDS]", same_order, bool(order_pair[0]),
                        "" if same_order else f"same gene functions, different order: {diff!r}"[:1500],
                        {"case": case, "type": "CDS-order"}))
    return out


def _eval_pipe(case: dict, scratch: str, world: W.World) -> Outcome:
    world.spec = case["rec"]
    world.calls = {"hmmsearch": 0, "hmmscan": 0}
    out: Outcome = []
    record1 = W.build_record(case["rec"])
    settings = _base_settings(case, record1, scratch)
    try:
        with world.patches():
            options = world.options(settings)
            results1 = W.run_pipeline(record1, options, {})
            json1 = W.results_json(results1)
            record2, previous2 = _second_record(case, record1, results1, scratch, "1")
            W.annotate(record1, results1)
            dump1 = W.dump_record(record1)
    except Exception as err:  # pylint: disable=broad-except
        return [("skipped-original-run-failed", True, False, _tb(err), None)]

    # ---- reuse run -------------------------------------------------------------------------
    if case.get("flags") == "bare":
        # like `antismash --reuse-results x.json`: the optional modules (sideloader, full_hmmer,
        # cluster_hmmer) are not enabled again; their saved results must be regenerated and kept
        settings = dict(settings, bare=True)
    calls_before = dict(world.calls)
    try:
        with world.patches(), _Spy() as spy:
            options = world.options(settings)
            results2 = W.run_pipeline(record2, options, previous2)
            json2 = W.results_json(results2)
            record3, previous3 = _second_record(case, record2, results2, scratch, "2")
            W.annotate(record2, results2)
            dump2 = W.dump_record(record2)
    except Exception as err:  # pylint: disable=broad-except
        culprit = _module_in_traceback(err)
        return [(f"reuse-run-completes[{culprit}]", False, True, _tb(err), None)]
    reran = {k: world.calls[k] - calls_before[k] for k in world.calls}

    for name, short in SHORT.items():
        if name not in json1:
            continue
        key = {"case": case, "module": short}
        nontrivial = _nonempty(short, json1[name]) and spy.regenerated.get(name) is not None
        if name not in json2:
            out.append((f"results-kept[{short}]", False, nontrivial,
                        "results existed after run 1 but the reuse run (same settings) has none", key))
            continue
        same = json1[name] == json2[name]
        if short == "hmm_detection":
            canon_same = _canon_rules(json1[name]) == _canon_rules(json2[name])
            out.append((f"json-identical-modulo-definition-domain-order[{short}]", canon_same, nontrivial,
                        "" if canon_same else _first_diff(_canon_rules(json1[name]), _canon_rules(json2[name])), key))
        out.append((f"json-byte-identical[{short}]", same, nontrivial,
                    "" if same else _first_diff(json1[name], json2[name]) + f" | binaries rerun: {reran}", key))

    out.extend(_compare_dumps(case, dump1, dump2))

    # ---- second cycle -----------------------------------------------------------------------
    try:
        with world.patches():
            options = world.options(settings)
            results3 = W.run_pipeline(record3, options, previous3)
            json3 = W.results_json(results3)
    except Exception as err:  # pylint: disable=broad-except
        out.append((f"second-reuse-run-completes[{_module_in_traceback(err)}]", False, True, _tb(err), None))
        return out
    for name, short in SHORT.items():
        if name not in json2:
            continue
        key = {"case": case, "module": short, "cycle": 2}
        nontrivial = _nonempty(short, json2[name])
        third = json3.get(name, "{}")
        if short == "hmm_detection":
            canon_same = _canon_rules(json2[name]) == _canon_rules(third)
            out.append((f"second-cycle-json-identical-modulo-definition-domain-order[{short}]", canon_same,
                        nontrivial, "" if canon_same else _first_diff(_canon_rules(json2[name]), _canon_rules(third)),
                        key))
        same = json2[name] == third
        out.append((f"second-cycle-json-byte-identical[{short}]", same, nontrivial,
                    "" if same else _first_diff(json2[name], third), key))
    return out


# ----------------------------------------------------------------------------------------------
# family "guard": something changed between saving and reusing
# ----------------------------------------------------------------------------------------------
def _guard_bases() -> dict[str, dict]:
    return {
        "B1": {"rec": _pair_spec("pks1", "nrps2", 900, False), "side": "file+simple", "tta": "below",
               "taxon": "bacteria", "strictness": "relaxed"},
        "B2": {"rec": _single_spec("transat_pair", "cross-gap", 1, True), "side": "file", "tta": "eq",
               "taxon": "bacteria", "strictness": "relaxed"},
        "B3": {"rec": _pair_spec("lanc2", "hybrid", 52000, False), "side": "cds", "tta": "below",
               "taxon": "fungi", "strictness": "relaxed"},
    }


# guard name -> (module short name, what changes)
GUARDS: dict[str, tuple[str, str]] = {
    "schema": ("*", "the module's schema version field in the saved JSON is one higher"),
    "schema-older": ("*", "the module's schema version field in the saved JSON is one lower"),
    "record-id": ("*", "the record has another id than the saved results"),
    "inner-schema": ("hmm_detection", "rule_results.schema_version in the saved JSON differs"),
    "strictness-strict": ("hmm_detection", "--hmmdetection-strictness strict now (saved: relaxed)"),
    "strictness-loose": ("hmm_detection", "--hmmdetection-strictness loose now (saved: relaxed)"),
    "rule-subset": ("hmm_detection", "--hmmdetection-limit-to-rule-names T1PKS,NRPS now"),
    "enabled-types": ("hmm_detection", "saved enabled_types lack one rule of the current rule set"),
    "fungal-cutoff": ("hmm_detection", "fungal cutoff multiplier 2.0 now (saved 1.0); fungal base only"),
    "fungal-neighbourhood": ("hmm_detection", "fungal neighbourhood multiplier 1.0 now (saved 1.5); fungal base only"),
    "saved-min-score-stricter": ("hmmer", "saved 'min score' above the module's limit"),
    "saved-max-evalue-stricter": ("hmmer", "saved 'max evalue' below the module's limit"),
    "saved-thresholds-lenient": ("hmmer", "saved thresholds more lenient, hits on both sides of / on the limits"),
    "pfam-version": ("hmmer", "pfam database version 36.0 requested now (saved 35.0)"),
    "tta-threshold": ("tta", "tta threshold moved: saved/new in {below, equal, above} the GC content"),
    "results-file-schema": ("results_file", "the results file as a whole carries a newer / unknown schema number"),
}
SCHEMA_KEY = {"sideloader": "schema_version", "hmm_detection": "schema_version",
              "nrps_pks_domains": "schema_version", "full_hmmer": "schema", "cluster_hmmer": "schema",
              "tta": "schema_version"}
OTHER_ID = "OTHER0002"


def _guard_cases() -> Iterator[dict]:
    for base, info in _guard_bases().items():
        fungal = info["taxon"] == "fungi"
        for guard, (target, _what) in GUARDS.items():
            if guard.startswith("fungal") and not fungal:
                continue
            if target == "*":
                shorts = list(SHORT.values())
            elif target == "hmmer":
                shorts = ["full_hmmer", "cluster_hmmer"]
            else:
                shorts = [target]
            for short in shorts:
                if guard == "results-file-schema":
                    for schema in (5, 0, 99):
                        yield {"family": "guard", "base": base, "guard": guard, "module": short, "schema": schema}
                    continue
                if guard == "tta-threshold":
                    for old in TTAS:
                        for new in TTAS:
                            yield {"family": "guard", "base": base, "guard": guard, "module": short,
                                   "old": old, "new": new}
                else:
                    yield {"family": "guard", "base": base, "guard": guard, "module": short}


def _eval_guard(case: dict, scratch: str, world: W.World) -> Outcome:
    mods = W.am()
    base = dict(_guard_bases()[case["base"]])
    guard, short = case["guard"], case["module"]
    name = LONG.get(short, "")
    if guard == "tta-threshold":
        base["tta"] = case["old"]
    world.spec = base["rec"]
    record1 = W.build_record(base["rec"])
    settings1 = _base_settings(base, record1, scratch)
    try:
        with world.patches():
            results1 = W.run_pipeline(record1, world.options(settings1), {})
            json1 = W.results_json(results1)
    except Exception as err:  # pylint: disable=broad-except
        return [("skipped-original-run-failed", True, False, _tb(err), None)]
    if guard == "results-file-schema":
        return _eval_file_schema(case, record1, results1, scratch)
    if name not in json1:
        return [("guard-module-had-no-results", True, False, "", None)]
    saved = mods["json"].loads(json1[name])
    nontrivial = _nonempty(short, json1[name]) or short == "tta"

    # ---- apply the change -----------------------------------------------------------------
    settings2 = dict(settings1)
    record_id = None
    expect = "fresh-or-refused"
    limits = {}
    if guard in ("schema", "schema-older"):
        saved[SCHEMA_KEY[short]] += 1 if guard == "schema" else -1
    elif guard == "record-id":
        record_id = OTHER_ID
        if settings2.get("sideload_simple"):
            settings2["sideload_simple"] = settings2["sideload_simple"].replace(record1.id, OTHER_ID)
    elif guard == "inner-schema":
        saved["rule_results"]["schema_version"] += 1
    elif guard == "strictness-strict":
        settings2["strictness"] = "strict"
    elif guard == "strictness-loose":
        settings2["strictness"] = "loose"
    elif guard == "rule-subset":
        settings2["limit_rules"] = ["T1PKS", "NRPS"]
    elif guard == "enabled-types":
        saved["enabled_types"] = [t for t in saved["enabled_types"] if t != "T3PKS"]
    elif guard == "fungal-cutoff":
        settings2["fungal_cutoff"] = 2.0
    elif guard == "fungal-neighbourhood":
        settings2["fungal_neighbourhood"] = 1.0
    elif guard == "saved-min-score-stricter":
        saved["min score"] = 5.0
    elif guard == "saved-max-evalue-stricter":
        saved["max evalue"] = 0.001
    elif guard == "saved-thresholds-lenient":
        module = mods["modules"][name]
        limits = {"score": module.MIN_SCORE, "evalue": module.MAX_EVALUE}
        saved["min score"] = limits["score"] - 5.0
        saved["max evalue"] = limits["evalue"] * 10
        extra = []
        for k, (score, evalue) in enumerate([(limits["score"] - 1.0, 1e-9), (limits["score"], 1e-9),
                                             (50.0, limits["evalue"] * 5), (50.0, limits["evalue"]),
                                             (limits["score"] + 0.5, limits["evalue"] / 2)]):
            if not saved["hits"]:
                break
            hit = dict(saved["hits"][k % len(saved["hits"])])
            hit["score"], hit["evalue"] = score, evalue
            extra.append(hit)
        saved["hits"] = saved["hits"] + extra
        expect = "weak-refilter"
    elif guard == "pfam-version":
        settings2["pfam"] = "36.0"
    elif guard == "tta-threshold":
        settings2["tta_threshold"] = _tta_threshold(case["new"], record1.get_gc_content())
    else:
        raise AssertionError(guard)

    spec2 = dict(base["rec"])
    if record_id:
        spec2["id"] = record_id
    if settings2.get("sideload") and record_id:
        # the annotation file must speak about the record that is analysed now
        with open(settings2["sideload"][0], encoding="utf-8") as handle:
            text = handle.read().replace(record1.id, record_id)
        with open(settings2["sideload"][0], "w", encoding="utf-8") as handle:
            handle.write(text)

    # ---- reference: a fresh run under the new settings / record -------------------------------
    try:
        with world.patches():
            fresh = W.results_json(W.run_pipeline(W.build_record(spec2), world.options(settings2), {}))
    except Exception as err:  # pylint: disable=broad-except
        return [("skipped-reference-run-failed", True, False, _tb(err), None)]

    # ---- the reuse run: only the guarded module has saved results ----------------------------
    as_fresh_allowed = guard == "tta-threshold"     # the module documents a reuse under a moved threshold
    clause = f"changed-{guard}-refused-or-discarded[{short}]"
    if as_fresh_allowed:
        clause = f"changed-{guard}-refused-discarded-or-as-fresh[{short}]"
    record2 = W.build_record(spec2)
    try:
        with world.patches(), _Spy() as spy:
            results2 = W.run_pipeline(record2, world.options(settings2), {name: saved})
            json2 = W.results_json(results2)
    except Exception as err:  # pylint: disable=broad-except
        return [(clause, True, nontrivial, f"refused: {type(err).__name__}", None)]
    regenerated = spy.regenerated.get(name)
    final = results2.get(name)
    if name not in json2:
        return [(clause, True, nontrivial, "discarded (no results)", None)]
    kept = regenerated is not None and final is regenerated       # the saved results live on
    if expect == "weak-refilter":
        now = std_json.loads(json2[name])
        bad = [hit for hit in now["hits"] if hit["score"] < limits["score"] or hit["evalue"] > limits["evalue"]]
        labelled = now["min score"] >= limits["score"] and now["max evalue"] <= limits["evalue"]
        known = {std_json.dumps(hit, sort_keys=True) for hit in saved["hits"]}
        invented = [hit for hit in now["hits"] if std_json.dumps(hit, sort_keys=True) not in known]
        okay = not bad and not invented and labelled
        return [(f"changed-{guard}-keeps-only-hits-within-current-limits[{short}]", okay, nontrivial,
                 "" if okay else f"kept={kept}; outside the limits: {bad[:2]}; not in saved: {invented[:2]}; "
                 f"labelled min score {now['min score']} max evalue {now['max evalue']}", None)]
    same = json2[name] == fresh.get(name)
    if as_fresh_allowed:
        detail = f"kept={kept}"
        if not same:
            detail += "; the outcome is neither a refusal nor what a fresh run under the new settings gives: " + \
                      _first_diff(json2[name], fresh.get(name, "<no results in a fresh run>"))
        return [(clause, same, nontrivial, detail, None)]
    detail = "discarded and rerun" if not kept else \
        "the saved results were regenerated and kept although they were saved under other conditions" + \
        ("" if same else "; they also differ from a fresh run: " + _first_diff(json2[name], fresh.get(name, "<none>")))
    return [(clause, not kept, nontrivial, detail, None)]


def _eval_file_schema(case: dict, record1: Any, results1: dict, scratch: str) -> Outcome:
    """ a results file whose top-level schema number is not the current one nor one the code lists as
        compatible must be refused by AntismashResults.from_file """
    mods = W.am()
    serialiser = mods["serialiser"]
    current = serialiser.AntismashResults.SCHEMA_VERSION
    if case["schema"] == current or case["schema"] in serialiser.AntismashResults.COMPATIBLE_SCHEMAS[current]:
        return [("guard-schema-is-compatible", True, False, "", None)]
    path = os.path.join(scratch, "results.json")
    serialiser.AntismashResults("input.gbk", [record1], [results1], "8.dev").write_to_file(path)
    with open(path, encoding="utf-8") as handle:
        data = std_json.load(handle)
    data["schema"] = case["schema"]
    with open(path, "w", encoding="utf-8") as handle:
        std_json.dump(data, handle)
    try:
        serialiser.AntismashResults.from_file(path)
    except Exception as err:  # pylint: disable=broad-except
        return [("changed-results-file-schema-refused[results_file]", True, True, f"refused: {type(err).__name__}", None)]
    return [("changed-results-file-schema-refused[results_file]", False, True,
             f"a results file with schema {case['schema']} (current {current}) was loaded without complaint", None)]


# ----------------------------------------------------------------------------------------------
# family "direct": RuleDetectionResults built by hand, definition-domain sets with unstable order
# ----------------------------------------------------------------------------------------------
DIRECT_KINDS = ["flip-pair", "flip-triple", "stable-pair", "single"]


def _find_names(kind: str) -> list[str]:
    """ profile-like names whose set, built in this order, iterates differently after list->set->list
        (decided in this very process, so it does not depend on the hash seed) """
    size = {"flip-pair": 2, "flip-triple": 3, "stable-pair": 2, "single": 1}[kind]
    want_flip = kind.startswith("flip")
    for start in range(0, 6000, size):
        names = [f"dom_{start + k}" for k in range(size)]
        built: set = set()
        for item in names:
            built.add(item)
        once = list(built)
        twice = list(set(once))
        if (once != twice) == want_flip:
            return names
    raise AssertionError(f"no {kind} name set found")


def _eval_direct(case: dict, _scratch: str, _world: W.World) -> Outcome:
    mods = W.am()
    # pylint: disable=import-outside-toplevel
    from antismash.common.hmm_rule_parser.cluster_prediction import CDSResults, RuleDetectionResults
    from antismash.common.hmm_rule_parser.structures import Multipliers
    from antismash.common.secmet import Protocluster
    from antismash.common.secmet.qualifiers import SecMetQualifier
    spec = {"L": 9000, "circ": 0, "sd": 1, "gc": 70, "genes": [[1000, 1, "plain"], [2000, -1, "plain"]]}
    names = _find_names(case["dd"])

    def build(record: Any) -> Any:
        cds = record.get_cds_by_name("g0")
        domains = [SecMetQualifier.Domain(name, 1e-20 * (k + 1), 100.5 + k, 10 + k, "rule-based-clusters")
                   for k, name in enumerate(names)]
        definition: set = set()
        for name in names:
            definition.add(name)
        cluster = Protocluster(mods["FeatureLocation"](1000, 1303, 1), mods["FeatureLocation"](0, 6303, 1),
                               tool="rule-based-clusters", product="prodA", cutoff=5000, neighbourhood_range=5000,
                               detection_rule="(" + " and ".join(names) + ")", product_category="other")
        return RuleDetectionResults({cluster: [CDSResults(cds, domains, {"prodA": definition})]},
                                    "rule-based-clusters", [], Multipliers())
    out: Outcome = []
    try:
        original = build(W.build_record(spec))
        json1 = mods["json"].dumps(original.to_json())
        second = RuleDetectionResults.from_json(mods["json"].loads(json1), W.build_record(spec))
        json2 = mods["json"].dumps(second.to_json())
        third = RuleDetectionResults.from_json(mods["json"].loads(json2), W.build_record(spec))
        json3 = mods["json"].dumps(third.to_json())
    except Exception as err:  # pylint: disable=broad-except
        return [("reuse-run-completes[hmm_detection]", False, True, _tb(err), None)]
    for label, one, two in (("", json1, json2), ("second-cycle-", json2, json3)):
        canon = _canon_rules(one) == _canon_rules(two)
        out.append((f"{label}json-identical-modulo-definition-domain-order[hmm_detection]", canon, True,
                    "" if canon else _first_diff(_canon_rules(one), _canon_rules(two)), None))
        out.append((f"{label}json-byte-identical[hmm_detection]", one == two, True, _first_diff(one, two), None))
    return out


# ----------------------------------------------------------------------------------------------
# known findings
# ----------------------------------------------------------------------------------------------
def _has_multi_domain_definition(case: dict) -> bool:
    """ some gene of the case can get a definition-domain set with two or more profile names """
    if case.get("family") == "direct":
        return str(case.get("dd", "")).startswith("flip")
    if case.get("family") != "pipe":
        return False
    return any(len(W.GENE_TYPES[gene[2]].get("rule", [])) >= 2 for gene in case["rec"]["genes"])


def _set_order_class(clause: str, case: dict) -> bool:
    """ byte-level (not content-level) difference clauses of hmm_detection on inputs where a CDS has
        two or more definition domains for one product """
    return clause in ("json-byte-identical[hmm_detection]", "second-cycle-json-byte-identical[hmm_detection]",
                      "same-gene-function-order[CDS]") and _has_multi_domain_definition(case)


FINDING_CLASSES: dict = {"C11-F1": _set_order_class}

# ----------------------------------------------------------------------------------------------
# driver interface
# ----------------------------------------------------------------------------------------------
N_SHARDS = 48


def _all_cases(tier: str) -> Iterator[dict]:
    """ guards and direct cases first (few, and they must not be cut off by a time budget) """
    for kind in DIRECT_KINDS:
        yield {"family": "direct", "dd": kind}
    yield from _guard_cases()
    yield from _pipe_cases(tier)


def shards(tier: str, seed: int) -> list:
    W.am()
    out = []
    if tier == "thorough":
        out += [{"family": "random", "k": k, "n": 16, "cases": 120} for k in range(16)]
    out += [{"family": "all", "k": k, "n": N_SHARDS} for k in range(N_SHARDS)]
    return out


def _evaluate(case: dict, root: str = "") -> Outcome:
    """ root: scratch directory owned by the caller (one per shard) that holds the fake databases """
    own = ""
    if not root:
        own = root = tempfile.mkdtemp(prefix="verif-c11-")
        _WORLD.clear()
    scratch = tempfile.mkdtemp(prefix="case-", dir=root)
    try:
        world = _world(root)
        world.calls = {"hmmsearch": 0, "hmmscan": 0}
        if case["family"] == "pipe":
            return _eval_pipe(case, scratch, world)
        if case["family"] == "guard":
            return _eval_guard(case, scratch, world)
        if case["family"] == "direct":
            return _eval_direct(case, scratch, world)
        raise AssertionError(case["family"])
    finally:
        shutil.rmtree(scratch, ignore_errors=True)
        if own:
            shutil.rmtree(own, ignore_errors=True)
            _WORLD.clear()
        W.am()["destroy_config"]()


def _report(case: dict, run: Any, root: str) -> None:
    try:
        outcome = _evaluate(case, root)
    except Exception:  # pylint: disable=broad-except
        run.error(f"harness failure on {case!r}:\n{traceback.format_exc()}")
        return
    for clause, okay, nontrivial, detail, key in outcome:
        run.check(clause, okay, case, nontrivial=nontrivial, detail=detail, key=key)


def _random_case(rng: Any) -> dict:
    """ a random multi-island record (thorough tier only) """
    circular = rng.random() < 0.5
    length = rng.randrange(120000, 158000)
    islands = [rng.choice(list(ISLANDS)) for _ in range(rng.randint(2, 4))]
    genes: list = []
    pos = rng.randrange(0, 9000)
    for island in islands:
        strand = rng.choice((1, -1))
        if pos + _island_len(island) + 400 > length:
            break
        genes += _island_genes(island, pos, strand, length, circular)
        pos += _island_len(island) + rng.choice((300, 900, 4000, 11000, 26000, 47000))
    if not genes:
        genes = _island_genes("pks1", 5000, 1, length, circular)
    spec = {"L": length, "circ": int(circular), "sd": rng.randint(1, 4), "gc": rng.choice((62, 70, 74)),
            "genes": sorted(genes, key=lambda g: g[0])}
    return {"family": "pipe", "label": "random:" + "+".join(islands), "rec": spec, "side": rng.choice(SIDES),
            "tta": rng.choice(TTAS), "hist": rng.choice(HISTS), "taxon": "bacteria" if circular else
            rng.choice(("bacteria", "fungi")), "strictness": rng.choice(STRICTNESS), "flags": rng.choice(FLAGS)}


def run_shard(shard: dict, run: Any) -> None:
    W.am()
    root = tempfile.mkdtemp(prefix="verif-c11-shard-")
    _WORLD.clear()
    try:
        if shard["family"] == "all":
            for index, case in enumerate(_all_cases(run.tier)):
                if index % shard["n"] == shard["k"]:
                    if run.out_of_time():
                        return
                    _report(case, run, root)
        else:
            for _ in range(shard["cases"]):
                if run.out_of_time():
                    return
                _report(_random_case(run.rng), run, root)
    finally:
        shutil.rmtree(root, ignore_errors=True)
        _WORLD.clear()


def replay(case: dict) -> list[str]:
    W.am()
    return [f"{clause}: {detail}" for clause, okay, _nt, detail, _key in _evaluate(case) if not okay]
