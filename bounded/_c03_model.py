"""Private helper of bounded/C03.py and bounded/C07.py: the input model (tiny records, genes,
profile hits, rules), the bridge to the REAL antismash code, and the set-of-bases reference
oracle written from the property statements (no antismash function is used by the oracle).

A *case* is a JSON-able dict

    {"L": 40, "circ": 1,
     "genes": [[s, e, strand], ...],     0 <= s < L, s < e; e > L means the gene spans the origin
                                         (bases s..L-1 and 0..e-L-1; only legal on a circular record)
     "hits":  ["a", "ab", "", ...],      one string of profile letters (a,b,c) per gene
     "rules": [{"n": "r0", "cut": 5, "nb": 3, "cond": "a and b", "sup": ["r1"], "ext": "c"}, ...]}

Distances are counted like the code base documents them: the number of bases strictly between
two genes (touching or overlapping genes are at distance 0); on a circular record the shorter
way round counts.
"""
from __future__ import annotations

import itertools
import logging
from typing import Any, Dict, FrozenSet, Iterable, List, Optional, Sequence, Set, Tuple

PROFILES = "abc"

# ----------------------------------------------------------------------------------------------
#  geometry on sets of bases (oracle side)
# ----------------------------------------------------------------------------------------------


def gene_bases(gene: Sequence[int], length: int) -> FrozenSet[int]:
    """ the set of bases of a gene [s, e, strand] or [s, e, strand, exons]; coordinates beyond length wrap.
        exons: ascending [start, end) pairs between s and e (the introns are not bases of the gene) """
    if len(gene) > 3:
        return frozenset(x % length for low, high in gene[3] for x in range(low, high))
    start, end = gene[0], gene[1]
    return frozenset(x % length for x in range(start, end))


def set_distance(first: Iterable[int], second: Iterable[int], length: int, circular: bool) -> int:
    """ number of bases strictly between the two sets; 0 if they touch or share a base """
    best = None
    for x in first:
        for y in second:
            diff = abs(x - y)
            if circular:
                diff = min(diff, length - diff)
            if best is None or diff < best:
                best = diff
    assert best is not None
    return max(0, best - 1)


def components(items: Sequence[int], related) -> List[List[int]]:
    """ connected components of `items` under the symmetric relation related(i, j) """
    parent = {i: i for i in items}

    def find(i: int) -> int:
        while parent[i] != i:
            parent[i] = parent[parent[i]]
            i = parent[i]
        return i

    for i, j in itertools.combinations(items, 2):
        if related(i, j):
            parent[find(i)] = find(j)
    groups: Dict[int, List[int]] = {}
    for i in items:
        groups.setdefault(find(i), []).append(i)
    return sorted(groups.values())


def smallest_spans(bases: Iterable[int], length: int, circular: bool) -> List[Tuple[int, int]]:
    """ every smallest contiguous span (start, size) covering `bases`; on a line there is one
        (the hull), on a ring the complement of a largest uncovered run (several on a tie) """
    covered = sorted(set(bases))
    assert covered
    if not circular:
        return [(covered[0], covered[-1] - covered[0] + 1)]
    if len(covered) == length:
        return [(0, length)]
    # uncovered runs, cyclically: run after covered[i] up to the next covered base
    runs = []
    for i, base in enumerate(covered):
        nxt = covered[(i + 1) % len(covered)]
        gap = (nxt - base - 1) % length
        runs.append((gap, nxt))   # the span starts at nxt when this gap is the excluded one
    largest = max(gap for gap, _ in runs)
    return sorted({(start, length - largest) for gap, start in runs if gap == largest})


def span_bases(span: Tuple[int, int], length: int) -> FrozenSet[int]:
    """ bases of (start, size); wraps modulo length """
    start, size = span
    return frozenset((start + i) % length for i in range(min(size, length)))


def widen(span: Tuple[int, int], amount: int, length: int, circular: bool) -> FrozenSet[int]:
    """ bases within `amount` of the span, clipped on a line, wrapped on a ring """
    start, size = span
    if circular:
        if size + 2 * amount >= length:
            return frozenset(range(length))
        return span_bases((start - amount, size + 2 * amount), length)
    low = max(0, start - amount)
    high = min(length, start + size + amount)
    return frozenset(range(low, high))


def bases_to_span(bases: Iterable[int], length: int) -> Optional[Tuple[int, int]]:
    """ (start, size) if `bases` is one contiguous run on the ring/line model, else None.
        A run not containing both 0 and length-1 is reported with its natural start. """
    have = set(bases)
    if not have:
        return None
    if len(have) == length:
        return (0, length)
    starts = [x for x in have if (x - 1) % length not in have]
    if len(starts) != 1:
        return None
    return (starts[0], len(have))


# ----------------------------------------------------------------------------------------------
#  reference semantics of the small condition family (C01's Sem/Why restricted to what is used)
# ----------------------------------------------------------------------------------------------
#  cond strings:  "a" | "b" | "c" single
#                 "a and b"      both somewhere within reach, the gene itself supplying one
#                 "a or b"
#                 "cds(a and b)" both in the gene itself
#                 "a and not c"  a in the gene, c neither in the gene nor within reach
#                 "minimum(2,[a,b])"
#                 "c and not cds(a and b)"  c in the gene, no gene within reach (nor the gene itself) carrying both a and b
CONDITIONS = ("a", "a and b", "a or b", "cds(a and b)", "a and not c", "minimum(2,[a,b])", "c and not cds(a and b)")


def anchors_of(cond: str, hits: Sequence[str], near) -> Set[int]:
    """ genes at which the condition holds with at least one of the gene's own hits used
        positively (these anchor a cluster), plus the neighbours that supplied a missing profile
        (always anchors themselves for this family, since `near` is symmetric).
        near(i, j): the two genes are separated by less than the rule's cutoff. """
    genes = range(len(hits))

    def reach(i: int, profile: str) -> bool:
        return any(profile in hits[j] for j in genes if j != i and hits[j] and near(i, j))

    result: Set[int] = set()
    for i in genes:
        own = hits[i]
        if not own:
            continue
        if cond in ("a", "b", "c"):
            holds = cond in own
        elif cond == "a and b":
            holds = (("a" in own or reach(i, "a")) and ("b" in own or reach(i, "b"))
                     and ("a" in own or "b" in own))
        elif cond == "a or b":
            holds = "a" in own or "b" in own
        elif cond == "cds(a and b)":
            holds = "a" in own and "b" in own
        elif cond == "a and not c":
            holds = "a" in own and "c" not in own and not reach(i, "c")
        elif cond == "c and not cds(a and b)":
            holds = ("c" in own and not ("a" in own and "b" in own)
                     and not any("a" in hits[j] and "b" in hits[j] for j in genes if j != i and near(i, j)))
        elif cond == "minimum(2,[a,b])":
            mine = sum(1 for p in "ab" if p in own)
            others = sum(1 for j in genes if j != i and near(i, j) for p in "ab" if p in hits[j])
            holds = mine >= 1 and mine + others >= 2
        else:
            raise ValueError(f"unknown condition {cond}")
        if holds:
            result.add(i)
    return result


def extender_ok(ext: str, own: str) -> bool:
    """ the EXTENDERS clause evaluated on one gene alone """
    if ext in PROFILES:
        return ext in own
    if ext == "cds(b or c)":
        return "b" in own or "c" in own
    if ext == "cds(b and not c)":
        return "b" in own and "c" not in own
    raise ValueError(f"unknown extender {ext}")


EXTENDERS = ("c", "cds(b or c)", "cds(b and not c)")


# ----------------------------------------------------------------------------------------------
#  bridge to the real code
# ----------------------------------------------------------------------------------------------

_QUIET = False


def _quiet() -> None:
    global _QUIET  # pylint: disable=global-statement
    if not _QUIET:
        logging.disable(logging.CRITICAL)
        _QUIET = True


def build_record(case: Dict[str, Any]):
    """ a real secmet Record with real CDS features named g0, g1, ... """
    _quiet()
    from Bio.Seq import Seq
    from antismash.common.secmet import Record
    from antismash.common.secmet.features import CDSFeature
    from antismash.common.secmet.locations import CompoundLocation, FeatureLocation

    length = case["L"]
    record = Record(Seq("A" * length))
    record.id = "rec"
    record.annotations["topology"] = "circular" if case["circ"] else "linear"
    for i, gene in enumerate(case["genes"]):
        start, end, strand = gene[0], gene[1], gene[2]
        if len(gene) > 3:
            # a multi-exon gene: every exon (cut in two where it crosses the origin) in ascending order of
            # the unrotated coordinates, then in biological order (descending for the reverse strand)
            pieces = []
            for low, high in gene[3]:
                low, high = low % length + 0, low % length + (high - low)
                if high <= length:
                    pieces.append([FeatureLocation(low, high, strand)])
                else:
                    assert case["circ"], "origin-spanning exon on a linear record"
                    pieces.append([FeatureLocation(low, length, strand), FeatureLocation(0, high - length, strand)])
            if strand == -1:
                pieces = [list(reversed(piece)) for piece in reversed(pieces)]
            parts = [part for piece in pieces for part in piece]
            location = parts[0] if len(parts) == 1 else CompoundLocation(parts)
        elif end > length:
            assert case["circ"], "origin-spanning gene on a linear record"
            high = FeatureLocation(start, length, strand)
            low = FeatureLocation(0, end - length, strand)
            # biological order: forward high part first, reverse low part first
            location = CompoundLocation([high, low] if strand == 1 else [low, high])
        else:
            location = FeatureLocation(start, end, strand)
        record.add_cds_feature(CDSFeature(location, translation="M", locus_tag=f"g{i}"))
    return record


def rule_text(rule: Dict[str, Any]) -> str:
    """ rule text in the documented grammar (distances are replaced afterwards, in bases) """
    text = f"RULE {rule['n']} CATEGORY cat "
    if rule.get("sup"):
        text += "SUPERIORS " + ", ".join(rule["sup"]) + " "
    text += f"CUTOFF 1 NEIGHBOURHOOD 1 CONDITIONS {rule['cond']} "
    if rule.get("ext"):
        text += f"EXTENDERS {rule['ext']} "
    return text


def build_rules(rules: Sequence[Dict[str, Any]]) -> list:
    """ real DetectionRule objects, parsed by the real parser from rule text, in the given order;
        cutoff / neighbourhood are then set in bases (as the repository's own tests do) """
    _quiet()
    from antismash.common.hmm_rule_parser import rule_parser
    built = []
    for rule in rules:
        # each rule is parsed on its own so that any order / sub-selection can be expressed;
        # SUPERIORS must name known rules, so stand-ins for them are offered to the parser
        standins = []
        for name in rule.get("sup") or []:
            standins.append(rule_parser.DetectionRule(name, "cat", 1, 1,
                                                      rule_parser.SingleCondition(False, "a")))
        parser = rule_parser.Parser(rule_text(rule), set(PROFILES), {"cat"}, standins)
        real = parser.rules[-1]
        assert real.name == rule["n"]
        real.cutoff = rule["cut"]
        real.neighbourhood = rule["nb"]
        built.append(real)
    return built


def build_ruleset(case: Dict[str, Any], rules: Optional[Sequence[Dict[str, Any]]] = None):
    """ a real Ruleset with one dynamic profile per letter (no HMMER involved) """
    from antismash.common.hmm_rule_parser.cluster_prediction import Ruleset
    from antismash.common.hmm_rule_parser.structures import DynamicHit, DynamicProfile

    hits = case["hits"]
    profiles = {}
    for letter in PROFILES:
        def find(_record: Any, _hmmer: Any, letter: str = letter) -> dict:
            return {f"g{i}": [DynamicHit(f"g{i}", letter, 100.0)]
                    for i, own in enumerate(hits) if letter in own}
        profiles[letter] = DynamicProfile(letter, "stand-in profile", find)
    real_rules = build_rules(case["rules"] if rules is None else rules)
    return Ruleset(tuple(real_rules), {}, "no-hmm-database", {"cat"}, "rule-based-clusters",
                   dynamic_profiles=profiles, equivalence_groups=[])


def location_bases(location: Any, length: int) -> FrozenSet[int]:
    """ bases of a real location object """
    result: Set[int] = set()
    for part in location.parts:
        result.update(range(int(part.start), int(part.end)))
    assert all(0 <= x < length for x in result), (location, length)
    return frozenset(result)


def location_parts(location: Any) -> List[List[int]]:
    return [[int(p.start), int(p.end)] for p in location.parts]


class Observed:
    """ what the real code reported for one record and ruleset """
    def __init__(self) -> None:
        self.rule_hits: Dict[str, Set[int]] = {}                 # apply_cluster_rules
        self.rule_domains: Dict[Tuple[str, int], Set[str]] = {}  # (rule, gene) -> profiles
        self.protoclusters: List[Dict[str, Any]] = []
        self.candidates: List[Dict[str, Any]] = []
        self.regions: List[Dict[str, Any]] = []
        self.error: Optional[str] = None
        self.stage = ""


def _gene_index(name: str) -> int:
    return int(name[1:])


def observe(case: Dict[str, Any], rules: Optional[Sequence[Dict[str, Any]]] = None,
            *, downstream: bool = False) -> Observed:
    """ run the real detection on the case; never raises for failures of the code under test.
        The rule hits are captured by wrapping the real apply_cluster_rules from the outside
        while the real detect_protoclusters_and_signatures runs (one pass, nothing replaced). """
    from antismash.common.hmm_rule_parser import cluster_prediction

    obs = Observed()
    record = build_record(case)
    ruleset = build_ruleset(case, rules)
    length = case["L"]
    real_apply = cluster_prediction.apply_cluster_rules

    def recording_apply(*args: Any, **kwargs: Any) -> Any:
        domains, type_hits = real_apply(*args, **kwargs)
        obs.rule_hits = {name: {_gene_index(g) for g in genes} for name, genes in type_hits.items() if genes}
        for gene, per_rule in domains.items():
            for name, profiles in per_rule.items():
                if profiles:
                    obs.rule_domains[(name, _gene_index(gene))] = set(profiles)
        return domains, type_hits

    try:
        obs.stage = "detect_protoclusters_and_signatures"
        cluster_prediction.apply_cluster_rules = recording_apply
        try:
            results = cluster_prediction.detect_protoclusters_and_signatures(record, ruleset)
        finally:
            cluster_prediction.apply_cluster_rules = real_apply
        for proto, cds_results in results.cds_by_cluster.items():
            obs.protoclusters.append({
                "rule": proto.product,
                "core": location_bases(proto.core_location, length),
                "core_parts": location_parts(proto.core_location),
                "loc": location_bases(proto.location, length),
                "loc_parts": location_parts(proto.location),
                "cutoff": proto.cutoff,
                "nb": proto.neighbourhood_range,
                "defining": {_gene_index(res.cds.get_name()): set(res.definition_domains.get(proto.product, set()))
                             for res in cds_results},
            })
        if downstream:
            obs.stage = "annotate_cds_features"
            results.annotate_cds_features()
            obs.stage = "add_protocluster"
            for proto in results.protoclusters:
                record.add_protocluster(proto)
            for entry, proto in zip(obs.protoclusters, results.protoclusters):
                entry["members"] = {_gene_index(c.get_name()) for c in proto.cds_children}
                entry["definition_cdses"] = {_gene_index(c.get_name()) for c in proto.definition_cdses}
            obs.stage = "create_candidate_clusters"
            record.create_candidate_clusters()
            for cand in record.get_candidate_clusters():
                obs.candidates.append({
                    "kind": str(cand.kind),
                    "protos": sorted((p.product, tuple(sorted(_gene_index(c.get_name()) for c in p.cds_children)))
                                     for p in cand.protoclusters),
                    "members": {_gene_index(c.get_name()) for c in cand.cds_children},
                    "loc": location_bases(cand.location, length),
                    "loc_parts": location_parts(cand.location),
                })
            obs.stage = "create_regions"
            record.create_regions()
            for region in record.get_regions():
                obs.regions.append({
                    "members": {_gene_index(c.get_name()) for c in region.cds_children},
                    "products": sorted(region.products),
                    "candidates": len(region.candidate_clusters),
                    "loc": location_bases(region.location, length),
                    "loc_parts": location_parts(region.location),
                })
        obs.stage = "done"
    except Exception as err:  # pylint: disable=broad-except
        obs.error = f"{obs.stage}: {type(err).__name__}: {err}"
    return obs
