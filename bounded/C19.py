"""Bounded stand-in for C19 - region overview layout data is complete, non-overlapping and in range
(antismash/outputs/html/area_packing.py: Row/pack/adjust_cross_origin_area/build_area_rows and
antismash/outputs/html/js.py: convert_regions/convert_cds_features).

One case = one region on one record:

  {"L": record length, "circ": bool,
   "protos": [[ns, cs, ce, ne], ...]      extent [ns, ne) and core [cs, ce); ns > ne / cs > ce: across the origin
   "cands":  [[kind, [proto index, ...]], ...]   kind in single/interleaved/neighbouring/chemical_hybrid
   "subs":   [[s, e], ...]                s > e: across the origin
   "genes":  [[s, e, strand], ...]        s > e: across the origin
   "real_desc": bool}                      False: js.get_description (HTML tooltip text, not part of the
                                           property, 20 ms per gene) is replaced by a stub for the call

The harness builds real Protocluster/CandidateCluster/SubRegion/Region/CDS objects in a real Record and
calls js.convert_regions(record, options, {}) (which calls build_area_rows and convert_cds_features).
The clauses are evaluated on the returned JSON only.  The model is sets of bases on the ring of L
positions and, for an origin-spanning region starting at S, the unrolled coordinate
u(p) = p if p >= S else p + L; nothing of area_packing.py/js.py is used by the oracle.
"""
from __future__ import annotations

import itertools
import types
from typing import Any, Iterator, Optional

RULE = (
    "regions built from explicit lists of protoclusters (extent+core), candidate clusters (subsets of the "
    "protoclusters: singles + interleaved-of-all / one chemical hybrid / singles + neighbouring pair + all), "
    "subregions and 2-3 genes on small records; every case goes through js.convert_regions. Families: (lin) "
    "linear record of 40: all multisets of <= 3 protocluster extents from a 12-interval grid with "
    "touching/nested/identical/equal-start coincidences, rotating cores (whole extent, inner, left end, right "
    "end), candidate structure x {no subregion, one over the hull, two overlapping}; (ring) circular records of "
    "100 and 101 (every second case for 101): every set of <= 3 of 8 areas before the origin x every set of <= 2 "
    "of 5 areas after it, alone and with 2 rotating origin-spanning areas and one rotating pair of them, out of "
    "100 origin-spanning areas (4 starts x 4 ends x core across / ending at L / starting at 0 / before / after "
    "the origin / equal to the extent, plus extents longer than half the record), every origin-spanning area "
    "alone, every fifth pair; areas become protoclusters and/or subregions in 4 rotating modes; (whole) the "
    "same kind of areas chosen so that they cover the whole record (region [0, L), origin-spanning areas must be "
    "split), 6 long origin-spanning extents x 7 cores x 2 bridging areas x ~12 extras; (pack) every 3- and (every "
    "second) 4-subset of 10 short areas before the origin followed by an origin-spanning area with 5 starts x 2 "
    "ends (rows that already hold several contents). Genes rotate over: across the origin on both strands, at 0, "
    "ending at L, at the region border, in the middle. thorough: finer rotations, 4-multisets, and seeded random "
    "regions. Non-trivial: at least three features (protoclusters + candidates + subregions). Distinct = "
    "distinct case dictionaries."
)
EXHAUSTIVE = {"quick": True, "thorough": False}

# flip to False to silently exempt candidate clusters of kind 'single' in regions without subregions
# (build_area_rows leaves them out by design) instead of judging them under their own clause
DEMAND_SINGLE_CANDIDATES = True

CL_EXC = "no-unexpected-exception"
CL_EXC_FULL = "no-unexpected-exception/area-written-as-origin-spanning-full-circle"
CL_ONCE = "every-area-drawn-once-or-as-two-linked-halves"
CL_ONCE_SINGLE = "every-area-drawn-once-or-as-two-linked-halves/single-candidate-without-subregions"
CL_EXTRA = "nothing-drawn-that-is-not-an-area-of-the-region"
CL_ROW = "areas-on-one-row-do-not-overlap"
CL_ROW_CROSS = "areas-on-one-row-do-not-overlap/origin-spanning-area-after-two-or-more"
CL_RANGE_AREA = "area-extents-inside-announced-range"
CL_RANGE_GENE = "genes-inside-announced-range"
CL_CORE = "protocluster-core-inside-its-extent"
CL_CORE_SIDE = "protocluster-core-inside-its-extent/core-nearer-to-far-end"
CL_ORDER = "positions-after-origin-shifted-by-record-length"
CL_ORDER_SIDE = "positions-after-origin-shifted-by-record-length/core-nearer-to-far-end"
CL_ORDER_GENE = "gene-positions-after-origin-shifted-by-record-length"


# --------------------------------------------------------------------------------------------------
# model
# --------------------------------------------------------------------------------------------------
def ring_bases(start: int, end: int, length: int) -> frozenset:
    """bases of [start, end) on a ring; start > end means across the origin"""
    if start < end:
        return frozenset(range(start, end))
    return frozenset(range(start, length)) | frozenset(range(0, end))


def crossing(start: int, end: int) -> bool:
    """[start, end) continues across the origin (start == end: the full circle starting at `start`)"""
    return start >= end


def core_side_misjudged(n_start: int, c_start: int, c_end: int, n_end: int, length: int) -> bool:
    """An origin-spanning extent whose core lies on one side of the origin, but nearer (by the test
    L - core_start < core_end) to the other: a core before the origin that starts further from the origin
    than its end coordinate (L - cs >= ce), or a core after the origin with L - cs < ce.  Needs an extent
    that covers more than half of the record."""
    if not crossing(n_start, n_end) or crossing(c_start, c_end):
        return False
    before_origin = c_start >= n_start
    return before_origin != (length - c_start < c_end)


def piece_bases(low: int, high: int, length: int) -> frozenset:
    """bases (mod L) of a drawn interval [low, high) in drawing coordinates"""
    return frozenset(p % length for p in range(low, high))


class Unroll:
    """drawing coordinate of a genome position in an origin-spanning region starting at S"""
    def __init__(self, region_start: int, length: int) -> None:
        self.region_start = region_start
        self.length = length

    def start(self, position: int) -> int:
        return position if position >= self.region_start else position + self.length

    def end(self, position: int) -> int:  # exclusive end: the last base is position - 1
        return self.start(position - 1) + 1


# --------------------------------------------------------------------------------------------------
# building the real objects
# --------------------------------------------------------------------------------------------------
def _location(start: int, end: int, length: int, strand: int = 1) -> Any:
    from antismash.common.secmet.locations import CompoundLocation, FeatureLocation  # pylint: disable=import-outside-toplevel
    if start < end:
        return FeatureLocation(start, end, strand)
    parts = [FeatureLocation(start, length, strand), FeatureLocation(0, end, strand)]
    if strand == -1:
        parts.reverse()
    return CompoundLocation(parts)


class Built:  # pylint: disable=too-few-public-methods
    """the real objects of one case"""
    def __init__(self) -> None:
        self.record: Any = None
        self.region: Any = None
        self.protos: list[Any] = []
        self.cands: list[Any] = []
        self.subs: list[Any] = []


def build(case: dict[str, Any]) -> Built:
    """Builds record, areas and region with the real constructors (input construction: any exception here
    means the case is not a valid input and is the generator's fault)."""
    from antismash.common.secmet.features import CandidateCluster, Protocluster, Region, SubRegion  # pylint: disable=import-outside-toplevel
    from antismash.common.secmet.test.helpers import DummyCDS, DummyRecord  # pylint: disable=import-outside-toplevel

    length = case["L"]
    out = Built()
    record = DummyRecord(seq="A" * length, circular=bool(case["circ"]))
    record.record_index = 1
    record.id = "rec"
    for index, (start, end, strand) in enumerate(case.get("genes", [])):
        record.add_cds_feature(DummyCDS(location=_location(start, end, length, strand), locus_tag=f"g{index}"))
    for index, (n_start, c_start, c_end, n_end) in enumerate(case["protos"]):
        proto = Protocluster(_location(c_start, c_end, length), _location(n_start, n_end, length), tool="tool",
                             product=f"p{index}", cutoff=0, neighbourhood_range=0, detection_rule="rule",
                             product_category="cat")
        out.protos.append(proto)
    wrap = length if case["circ"] else None
    for kind, members in case["cands"]:
        out.cands.append(CandidateCluster(CandidateCluster.kinds.from_string(kind), [out.protos[i] for i in members],
                                          circular_wrap_point=wrap))
    for index, (start, end) in enumerate(case["subs"]):
        out.subs.append(SubRegion(_location(start, end, length), tool="tool", label=f"s{index}"))
    # only the candidates (numbered by the record, the number is part of the drawn label) and the region have
    # to be registered in the record for convert_regions
    for cand in out.cands:
        record.add_candidate_cluster(cand)
    out.region = Region(sorted(out.cands), sorted(out.subs))
    record.add_region(out.region)
    out.record = record
    return out


def _options() -> Any:
    return types.SimpleNamespace(output_dir="/tmp/c15-c19-never-written", html_ncbi_context=False,
                                 all_enabled_modules=[])


def run_real(case: dict[str, Any], built: Built) -> dict[str, Any]:
    """js.convert_regions on the built record; returns the JSON of the single region"""
    from antismash.outputs.html import js  # pylint: disable=import-outside-toplevel
    original = js.get_description
    if not case.get("real_desc"):
        js.get_description = lambda *args, **kwargs: ""
    try:
        regions = js.convert_regions(built.record, _options(), {})
    finally:
        js.get_description = original
    if len(regions) != 1:
        raise AssertionError(f"{len(regions)} regions converted, expected 1")
    return regions[0]


# --------------------------------------------------------------------------------------------------
# evaluation
# --------------------------------------------------------------------------------------------------
class Expected:  # pylint: disable=too-few-public-methods
    """what the statement demands for one feature"""
    def __init__(self, kind: str, name: str, extent: tuple[int, int], core: Optional[tuple[int, int]]) -> None:
        self.kind = kind          # JSON kind
        self.name = name          # JSON product
        self.extent = extent      # genome coordinates, start > end: across the origin
        self.core = core          # protoclusters only
        self.single_candidate = False


def expected_features(case: dict[str, Any], built: Built) -> list[Expected]:
    out = []
    protos_in_region = sorted({i for _, members in case["cands"] for i in members})
    for index in protos_in_region:
        n_start, c_start, c_end, n_end = case["protos"][index]
        out.append(Expected("protocluster", f"p{index}", (n_start, n_end), (c_start, c_end)))
    for (kind, _), cand in zip(case["cands"], built.cands):
        location = cand.location
        start, end = int(location.parts[0].start), int(location.parts[-1].end)
        item = Expected("candidatecluster", f"CC {cand.get_candidate_cluster_number()}: {kind}", (start, end), None)
        item.single_candidate = kind == "single" and not case["subs"]
        out.append(item)
    for index, (start, end) in enumerate(case["subs"]):
        out.append(Expected("subregion", f"s{index}", (start, end), None))
    return out


def _get(area: dict[str, Any], key: str) -> int:
    if key == "neighbouring_start":
        return int(area.get(key, area["start"]))
    if key == "neighbouring_end":
        return int(area.get(key, area["end"]))
    return int(area[key])


def evaluate(case: dict[str, Any]) -> tuple[list[tuple[str, bool, str]], bool]:
    """(clause, ok, detail) for every applicable clause, and whether the case is non-trivial"""
    length = case["L"]
    built = build(case)
    nontrivial = len(case["protos"]) + len(case["cands"]) + len(case["subs"]) >= 3
    try:
        data = run_real(case, built)
        areas = list(data["clusters"])
        orfs = list(data["orfs"])
        range_start, range_end = int(data["start"]), int(data["end"])
        for area in areas:
            for key in ("start", "end", "neighbouring_start", "neighbouring_end"):
                _get(area, key)
    except Exception as err:  # pylint: disable=broad-except
        return [(_exception_clause(built), False, f"{type(err).__name__}: {err}")], nontrivial
    results: list[tuple[str, bool, str]] = [(_exception_clause(built), True, "")]

    region_parts = [(int(p.start), int(p.end)) for p in built.region.location.parts]
    region_crosses = len(region_parts) > 1
    unroll = Unroll(region_parts[0][0], length) if region_crosses else None
    features = expected_features(case, built)

    # ---- link drawn pieces: pieces sharing a non-zero group are one drawn thing -------------------
    linked: dict[Any, list[dict[str, Any]]] = {}
    for number, area in enumerate(areas):
        key = ("group", area["group"]) if area.get("group") else ("solo", number)
        linked.setdefault(key, []).append(area)
    things = []
    for pieces in linked.values():
        kinds = {piece["kind"] for piece in pieces}
        names = {piece.get("product", "") for piece in pieces} - {""}
        things.append({"pieces": pieces, "kind": kinds.pop() if len(kinds) == 1 else None,
                       "name": names.pop() if len(names) == 1 else None, "used": False})

    # ---- every feature once (or as two linked halves) ---------------------------------------------
    problems: dict[str, list[str]] = {CL_ONCE: [], CL_ONCE_SINGLE: []}
    evaluated = {CL_ONCE: False, CL_ONCE_SINGLE: False}
    drawn_as: dict[int, list[dict[str, Any]]] = {}
    owner: dict[int, Expected] = {}
    for number, feature in enumerate(features):
        clause = CL_ONCE
        if feature.single_candidate:
            if not DEMAND_SINGLE_CANDIDATES:
                for thing in things:  # still must not be drawn twice; mark whatever matches as used
                    if thing["kind"] == feature.kind and thing["name"] == feature.name:
                        thing["used"] = True
                continue
            clause = CL_ONCE_SINGLE
        evaluated[clause] = True
        matches = [thing for thing in things if not thing["used"] and thing["kind"] == feature.kind
                   and thing["name"] == feature.name]
        want = ring_bases(*feature.extent, length)
        if len(matches) != 1:
            problems[clause].append(f"{feature.kind} {feature.name} {feature.extent} drawn {len(matches)} times")
            for thing in matches:
                thing["used"] = True
            continue
        thing = matches[0]
        thing["used"] = True
        pieces = thing["pieces"]
        for piece in pieces:
            owner[id(piece)] = feature
        covered = [piece_bases(_get(p, "neighbouring_start"), _get(p, "neighbouring_end"), length) for p in pieces]
        total = sum(len(c) for c in covered)
        union = frozenset().union(*covered)
        if len(pieces) > 2 or union != want or total != len(want):
            problems[clause].append(
                f"{feature.kind} {feature.name} {feature.extent} drawn as "
                f"{[(_get(p, 'neighbouring_start'), _get(p, 'neighbouring_end')) for p in pieces]}")
            continue
        drawn_as[number] = pieces
    for clause in (CL_ONCE, CL_ONCE_SINGLE):
        if evaluated[clause]:
            results.append((clause, not problems[clause], "; ".join(problems[clause][:4])))
    extra = [thing for thing in things if not thing["used"]]
    results.append((CL_EXTRA, not extra, "; ".join(str(t["pieces"]) for t in extra[:3])))

    # ---- rows --------------------------------------------------------------------------------------
    # an origin-spanning protocluster/candidate/subregion that the packer meets after two or more areas of the
    # same kind that start earlier in packing order is judged under its own clause
    bad_row, bad_row_cross = [], []
    saw_cross_pair = False
    by_height: dict[int, list[dict[str, Any]]] = {}
    for area in areas:
        by_height.setdefault(int(area["height"]), []).append(area)
    late_crossers = _late_crossing_names(case, features)
    for height, members in by_height.items():
        # members are in the order the row was filled; the packer compares an origin-spanning newcomer with the
        # first content only, so the dedicated clause takes the pairs (later content, origin-spanning newcomer)
        for (i, first), (_, second) in itertools.combinations(enumerate(members), 2):
            overlap = (_get(first, "neighbouring_start") < _get(second, "neighbouring_end")
                       and _get(second, "neighbouring_start") < _get(first, "neighbouring_end"))
            special = i > 0 and id(second) in owner and \
                (owner[id(second)].kind, owner[id(second)].name) in late_crossers
            if special:
                saw_cross_pair = True
            if overlap:
                text = (f"height {height}: {first['kind']} {first.get('product', '')} "
                        f"[{_get(first, 'neighbouring_start')}, {_get(first, 'neighbouring_end')}) and "
                        f"{second['kind']} {second.get('product', '')} "
                        f"[{_get(second, 'neighbouring_start')}, {_get(second, 'neighbouring_end')})")
                (bad_row_cross if special else bad_row).append(text)
    results.append((CL_ROW, not bad_row, "; ".join(bad_row[:4])))
    if saw_cross_pair:
        results.append((CL_ROW_CROSS, not bad_row_cross, "; ".join(bad_row_cross[:4])))

    # ---- announced range ---------------------------------------------------------------------------
    # the range and the genes are 1-based closed, area coordinates are 0-based half-open: compare as bases
    outside = [f"{a['kind']} {a.get('product', '')} [{_get(a, 'neighbouring_start')}, {_get(a, 'neighbouring_end')})"
               for a in areas
               if not range_start - 1 <= _get(a, "neighbouring_start") <= _get(a, "neighbouring_end") <= range_end]
    results.append((CL_RANGE_AREA, not outside, f"range [{range_start}, {range_end}]: " + "; ".join(outside[:4])))
    if orfs:
        outside = [f"{o['locus_tag']} [{int(o['start'])}, {int(o['end'])}]" for o in orfs
                   if not range_start - (1 if region_crosses else 0) <= int(o["start"]) <= int(o["end"]) <= range_end]
        results.append((CL_RANGE_GENE, not outside, f"range [{range_start}, {range_end}]: " + "; ".join(outside[:4])))

    # ---- core inside extent ------------------------------------------------------------------------
    bad_by: dict[str, list[str]] = {}
    seen = set()
    for area in areas:
        if area["kind"] != "protocluster":
            continue
        feature = owner.get(id(area))
        side = feature is not None and feature.core is not None and \
            core_side_misjudged(feature.extent[0], feature.core[0], feature.core[1], feature.extent[1], length)
        clause = CL_CORE_SIDE if side else CL_CORE
        seen.add(clause)
        if not _get(area, "neighbouring_start") <= _get(area, "start") <= _get(area, "end") <= _get(area, "neighbouring_end"):
            bad_by.setdefault(clause, []).append(str(area))
    for clause in (CL_CORE, CL_CORE_SIDE):
        if clause in seen:
            results.append((clause, clause not in bad_by, "; ".join(bad_by.get(clause, [])[:3])))

    # ---- positions: drawing order equals genome order -----------------------------------------------
    bad_by = {}
    seen = set()
    for number, pieces in drawn_as.items():
        feature = features[number]
        cored = feature.core is not None
        side = cored and core_side_misjudged(feature.extent[0], feature.core[0], feature.core[1], feature.extent[1], length)
        clause = CL_ORDER_SIDE if side else CL_ORDER
        seen.add(clause)
        want = sorted(expected_pieces(feature, length, unroll), key=lambda t: t[:2])
        got = sorted(_piece_tuple(p) for p in pieces)
        if not _pieces_agree(want, got, cored):
            bad_by.setdefault(clause, []).append(
                f"{feature.kind} {feature.name} extent {feature.extent} core {feature.core}: drawn "
                f"(neighbouring_start, neighbouring_end, start, end) {got}, genome order gives {want}")
    for clause in (CL_ORDER, CL_ORDER_SIDE):
        if clause in seen:
            results.append((clause, clause not in bad_by, "; ".join(bad_by.get(clause, [])[:3])))
    if orfs:
        bad = _gene_position_problems(case, orfs, length, unroll)
        results.append((CL_ORDER_GENE, not bad, "; ".join(bad[:3])))
    return results, nontrivial


def _exception_clause(built: Built) -> str:
    """the dedicated clause when some area of the region (or the region) is a two-part location that starts
    and ends at the same coordinate, i.e. covers the whole circular record"""
    for feature in [built.region] + built.protos + built.cands + built.subs:
        parts = feature.location.parts
        if len(parts) > 1 and int(parts[0].start) == int(parts[-1].end):
            return CL_EXC_FULL
    return CL_EXC


def _piece_tuple(piece: dict[str, Any]) -> tuple:
    return (_get(piece, "neighbouring_start"), _get(piece, "neighbouring_end"), _get(piece, "start"), _get(piece, "end"))


def expected_pieces(feature: Expected, length: int, unroll: Optional[Unroll]) -> list[tuple]:
    """(neighbouring_start, neighbouring_end, start, end) of every piece in drawing coordinates; for a piece
    that holds no base of the core the core entry is None (any empty core inside the piece is accepted)"""
    n_start, n_end = feature.extent
    core = feature.core if feature.core is not None else feature.extent  # the body of an uncored area is its extent
    c_start, c_end = core
    if unroll is not None:
        return [(unroll.start(n_start), unroll.end(n_end), unroll.start(c_start), unroll.end(c_end))]
    if not crossing(n_start, n_end):
        return [(n_start, n_end, c_start, c_end)]
    # split at the origin
    if crossing(c_start, c_end):
        return [(n_start, length, c_start, length), (0, n_end, 0, c_end)]
    if c_start >= n_start:  # core before the origin
        return [(n_start, length, c_start, c_end), (0, n_end, None, None)]
    return [(n_start, length, None, None), (0, n_end, c_start, c_end)]


def _pieces_agree(want: list[tuple], got: list[tuple], cored: bool) -> bool:
    """extents must agree; for a protocluster also the core (start/end).  The start/end of candidate clusters
    and subregions are not constrained by the property (only their extents are)."""
    if len(want) != len(got):
        return False
    for expect, have in zip(want, got):
        if expect[:2] != have[:2]:
            return False
        if not cored:
            continue
        if expect[2] is None:
            if not (have[2] == have[3] and have[0] <= have[2] <= have[1]):
                return False
        elif expect[2:] != have[2:]:
            return False
    return True


def _gene_position_problems(case: dict[str, Any], orfs: list[dict[str, Any]], length: int,
                            unroll: Optional[Unroll]) -> list[str]:
    bad = []
    by_tag: dict[str, list[dict[str, Any]]] = {}
    for orf in orfs:
        tag = str(orf["locus_tag"])
        by_tag.setdefault(tag[:-6] if tag.endswith("_split") else tag, []).append(orf)
    for tag, drawn in by_tag.items():
        try:
            start, end, _ = case["genes"][int(tag[1:])]
        except (ValueError, IndexError):
            bad.append(f"unknown gene {tag}")
            continue
        got = sorted((int(o["start"]), int(o["end"])) for o in drawn)
        if unroll is not None:
            want = [(unroll.start(start) + 1, unroll.end(end))]
        elif crossing(start, end):
            want = [(1, end), (start + 1, length)]
        else:
            want = [(start + 1, end)]
        if got != want:
            bad.append(f"gene {tag} [{start}, {end}) drawn {got}, genome order gives {want}")
        elif len(drawn) == 2 and (not drawn[0].get("group") or drawn[0].get("group") != drawn[1].get("group")):
            bad.append(f"gene {tag}: the two halves are not linked")
    return bad


def _late_crossing_names(case: dict[str, Any], features: list[Expected]) -> set[tuple[str, str]]:
    """(kind, product) of origin-spanning areas that have at least two areas of their own kind which do not
    span the origin (the packer places those first or in between; only the first content of a row is compared
    with an origin-spanning newcomer)."""
    out = set()
    for feature in features:
        if not crossing(*feature.extent):
            continue
        same_kind = [f for f in features if f is not feature and f.kind == feature.kind and not crossing(*f.extent)
                     and not (f.single_candidate)]
        if len(same_kind) >= 2:
            out.add((feature.kind, feature.name))
    return out


def replay(case: dict[str, Any]) -> list[str]:
    results, _ = evaluate(case)
    return [f"{clause}: {detail}" for clause, ok, detail in results if not ok]


# --------------------------------------------------------------------------------------------------
# case generators
# --------------------------------------------------------------------------------------------------
def _core_for(n_start: int, n_end: int, length: int, variant: int) -> tuple[int, int]:
    """a core inside a non-origin-spanning extent"""
    size = n_end - n_start
    variant %= 4
    if variant == 0 or size < 4:
        return n_start, n_end
    if variant == 1:
        return n_start + 1, n_end - 1
    if variant == 2:
        return n_start, n_start + 2
    return n_end - 2, n_end


def _candidate_structures(count: int, variant: int) -> list[list[Any]]:
    members = list(range(count))
    singles = [["single", [i]] for i in members]
    variant %= 3
    if count == 1:
        return singles
    if variant == 0:
        return singles + [["interleaved", members]]
    if variant == 1:
        return [["chemical_hybrid", members]]
    return singles + [["neighbouring", members[:2]]] + ([["interleaved", members]] if count > 2 else [])


def _case(length: int, circ: bool, protos: list, cands: list, subs: list, genes: list, real: bool = False
          ) -> dict[str, Any]:
    return {"L": length, "circ": circ, "protos": [list(p) for p in protos], "cands": cands,
            "subs": [list(s) for s in subs], "genes": [list(g) for g in genes], "real_desc": real}


def _hull_linear(extents: list[tuple[int, int]]) -> tuple[int, int]:
    return min(s for s, _ in extents), max(e for _, e in extents)


_LIN = [(0, 10), (0, 20), (8, 18), (10, 20), (10, 30), (11, 20), (12, 16), (18, 30), (20, 30), (20, 40), (19, 40),
        (30, 40)]


def gen_lin(tier: str) -> Iterator[dict[str, Any]]:
    """linear record, protoclusters from an interval grid with coincidences"""
    length = 40
    number = 0
    for count in (1, 2, 3) if tier == "quick" else (1, 2, 3, 4):
        for chosen in itertools.combinations_with_replacement(_LIN, count):
            if count == 4 and number % 3:
                number += 1
                continue
            low, high = _hull_linear(list(chosen))
            for structure in range(3):
                for sub_variant in range(3):
                    number += 1
                    if tier == "quick" and count == 3 and (structure * 3 + sub_variant + number // 9) % 2:
                        continue
                    protos = [(s, *_core_for(s, e, length, number + i), e) for i, (s, e) in enumerate(chosen)]
                    if sub_variant == 0:
                        subs = []
                    elif sub_variant == 1:
                        subs = [(low, high)]
                    else:
                        subs = [(low, min(high, low + 6)), (min(low + 4, high - 1), high)]
                    genes = [(low, low + 3, 1), (high - 3, high, -1)]
                    yield _case(length, False, protos, _candidate_structures(count, structure), subs, genes)


def _crossers(length: int) -> list[tuple[int, int, int, int]]:
    """origin-spanning areas (ns, cs, ce, ne): core across, before, after the origin, at the borders"""
    out = []
    for n_start in (length - 40, length - 25, length - 10, length - 1):
        for n_end in (1, 10, 25, 40):
            pre, post = length - n_start, n_end
            out.append((n_start, n_start + pre // 2, max(1, post // 2), n_end))          # core across the origin
            out.append((n_start, n_start, length, n_end))                                   # core ends at L
            out.append((n_start, 0, n_end, n_end))                                          # core starts at 0
            if pre > 2:
                out.append((n_start, n_start + 1, min(length, n_start + 6) - 1, n_end))     # core before the origin
            if post > 2:
                out.append((n_start, 1, n_end - 1, n_end))                                  # core after the origin
            out.append((n_start, n_start, n_end, n_end))                                    # core == extent
    # longer than half the record, core well inside one side
    half = length // 2
    out.append((half - 20, half - 15, half - 5, half - 30))     # core before the origin, far from it
    out.append((half + 30, half - 10, half + 15, half + 20))    # core after the origin, far from it
    out.append((half - 20, half - 15, half + 45, half - 30))    # core before the origin, long
    out.append((half + 30, 2, half + 15, half + 20))            # core after the origin, long
    return out


def _pre(length: int) -> list[tuple[int, int]]:
    base = length - 50
    return [(base, base + 10), (base + 5, base + 20), (base + 8, base + 12), (base + 10, base + 25),
            (base + 20, base + 30), (base + 22, length), (length - 10, length), (length - 5, length - 1)]


_POST = [(0, 5), (0, 10), (3, 12), (10, 20), (20, 45)]


def _ring_genes(length: int, number: int) -> list[tuple[int, int, int]]:
    options = [(length - 4, 5, 1), (length - 4, 5, -1), (0, 3, 1), (length - 3, length, -1), (length - 50, length - 47, 1),
               (2, 8, -1), (length - 1, 2, 1), (length - 12, length - 6, 1), (6, 10, 1)]
    return [options[number % len(options)], options[(number // 3 + 4) % len(options)], options[(number // 7 + 7) % len(options)]]


def _as_case(length: int, areas: list[tuple[int, int, int, int]], mode: int, number: int) -> dict[str, Any]:
    """areas -> protoclusters and/or subregions: mode 0 all protoclusters; 1 origin-spanning ones (or the
    last) as subregions; 2 all subregions; 3 all protoclusters plus a subregion per odd area"""
    protos, subs = [], []
    for index, area in enumerate(areas):
        spanning = crossing(area[0], area[3])
        if mode == 2 or (mode == 1 and (spanning or index == len(areas) - 1)):
            subs.append((area[0], area[3]))
        else:
            protos.append(area)
            if mode == 3 and index % 2:
                subs.append((area[0], area[3]))
    genes = _ring_genes(length, number)
    genes = [g for i, g in enumerate(genes) if g not in genes[:i]]
    return _case(length, True, protos, _candidate_structures(len(protos), number) if protos else [], subs, genes,
                 real=number % 389 == 0)


def gen_ring(tier: str) -> Iterator[dict[str, Any]]:
    """circular records: areas before/after the origin combined with origin-spanning ones"""
    number = 0
    for length in (100, 101):
        crossers = _crossers(length)
        pre, post = _pre(length), _POST
        pre_sets = [c for k in range(0, 4) for c in itertools.combinations(pre, k)]
        post_sets = [c for k in range(0, 3) for c in itertools.combinations(post, k)]
        per = 2 if tier == "quick" else 8
        for i, before in enumerate(pre_sets):
            for j, after in enumerate(post_sets):
                plain = [(s, *_core_for(s, e, length, i + j + k), e) for k, (s, e) in enumerate(before + after)]
                picks = [(), ] if plain else []
                for k in range(per):
                    picks.append((crossers[(number + 11 * k) % len(crossers)],))
                picks.append((crossers[(number * 7) % len(crossers)], crossers[(number * 3 + 5) % len(crossers)]))
                for spanning in picks:
                    number += 1
                    if tier == "quick" and length == 101 and number % 2:
                        continue
                    areas = plain + list(spanning)
                    if not areas:
                        continue
                    yield _as_case(length, areas, number % 4, number)
        # every origin-spanning area alone and every pair of them
        for first in crossers:
            for mode in (0, 2):
                number += 1
                yield _as_case(length, [first], mode, number)
        for a, first in enumerate(crossers):
            for second in crossers[a::5 if tier == "quick" else 2]:
                number += 1
                yield _as_case(length, [first, second], number % 3, number)


def gen_whole(tier: str) -> Iterator[dict[str, Any]]:
    """areas that together cover the whole circular record: the region is [0, L), origin-spanning areas split"""
    number = 0
    for length in (100, 101):
        crossers = _crossers(length)
        for n_start, n_end in ((90, 70), (80, 60), (99, 50), (51, 49), (70, 69), (length - 1, length - 2)):
            variants = [(n_start, n_start, n_end, n_end), (n_start, n_start + 2, n_end - 1, n_end),
                        (n_start, (n_start + length) // 2, max(1, n_end // 2), n_end),
                        (n_start, n_start + 1, min(length, n_start + 8), n_end), (n_start, 3, n_end - 2, n_end),
                        (n_start, 0, 1, n_end), (n_start, length - 1, length, n_end)]
            variants = [v for v in variants if _valid_area(v, length)]
            gap = (max(0, n_end - 3), min(length, n_start + 2))
            bridges = [(gap[0], *_core_for(gap[0], gap[1], length, k), gap[1]) for k in range(2)]
            for variant in variants:
                for bridge in bridges:
                    extras: list[tuple] = [()]
                    extras += [(c,) for c in crossers[number % 7::7 if tier == "quick" else 2]]
                    extras += [((s, *_core_for(s, e, length, number), e),) for s, e in _pre(length)[::3] + _POST[::3]]
                    for extra in extras:
                        for mode in ((0, 1, 3)[number % 3],) if tier == "quick" else (0, 1, 3):
                            number += 1
                            yield _as_case(length, [variant, bridge] + list(extra), mode, number)


def _valid_area(area: tuple[int, int, int, int], length: int) -> bool:
    n_start, c_start, c_end, n_end = area
    if not (0 <= n_start < length and 0 < n_end <= length and 0 <= c_start < length and 0 < c_end <= length):
        return False
    if n_start == n_end or c_start == c_end:
        return False
    return ring_bases(c_start, c_end, length) <= ring_bases(n_start, n_end, length) and \
        (not crossing(c_start, c_end) or crossing(n_start, n_end))


def gen_pack(tier: str) -> Iterator[dict[str, Any]]:
    """several short areas before the origin followed by origin-spanning ones: first-fit rows with more than
    one content when the origin-spanning area arrives"""
    length = 100
    shorts = [(50, 54), (50, 58), (53, 57), (53, 61), (56, 64), (58, 62), (60, 64), (60, 72), (64, 68), (66, 78)]
    number = 0
    sizes = (3, 4) if tier == "quick" else (2, 3, 4, 5)
    for size in sizes:
        for chosen in itertools.combinations(shorts, size):
            for n_start in (52, 59, 63, 70, 85):
                for n_end in (3, 30):
                    number += 1
                    if tier == "quick" and size == 4 and number % 2:
                        continue
                    plain = [(s, *_core_for(s, e, length, number + k), e) for k, (s, e) in enumerate(chosen)]
                    spanning = (n_start, n_start + 1, n_end, n_end) if number % 2 else (n_start, 0, n_end, n_end)
                    yield _as_case(length, plain + [spanning], (0, 2, 3)[number % 3], number)


def gen_random(run: Any) -> Iterator[dict[str, Any]]:
    rng = run.rng
    number = 0
    while not run.out_of_time():
        number += 1
        circ = rng.random() < 0.8
        length = rng.choice((40, 60, 100, 101, 250))
        areas = []
        for _ in range(rng.randint(1, 6)):
            if circ and rng.random() < 0.35:
                n_start = rng.randint(length // 3, length - 1)
                n_end = rng.randint(1, min(n_start - 1, length * 2 // 3))
            else:
                n_start = rng.randint(0, length - 2)
                n_end = rng.randint(n_start + 1, length)
            bases = sorted(ring_bases(n_start, n_end, length), key=lambda p: (p - n_start) % length)
            a = rng.randrange(len(bases))
            b = rng.randrange(a, len(bases))
            area = (n_start, bases[a], bases[b] + 1, n_end)
            if _valid_area(area, length):
                areas.append(area)
        if not areas:
            continue
        if circ:
            yield _as_case(length, areas, rng.randrange(4), rng.randrange(10 ** 6))
        else:
            protos = areas
            low, high = _hull_linear([(a[0], a[3]) for a in areas])
            yield _case(length, False, protos, _candidate_structures(len(protos), rng.randrange(3)),
                        [(low, high)] if rng.random() < 0.4 else [], [(low, low + 3, 1)])


_FAMILIES = {"lin": gen_lin, "ring": gen_ring, "whole": gen_whole, "pack": gen_pack}


def all_cases(tier: str) -> Iterator[dict[str, Any]]:
    for generator in _FAMILIES.values():
        yield from generator(tier)


# --------------------------------------------------------------------------------------------------
# driver interface
# --------------------------------------------------------------------------------------------------
def _warm_up() -> None:
    """import the code under test once in the parent so that forked workers inherit it"""
    from antismash.outputs.html import js  # noqa: F401  pylint: disable=import-outside-toplevel,unused-import
    import antismash.common.secmet.test.helpers  # noqa: F401  pylint: disable=import-outside-toplevel,unused-import


def shards(tier: str, seed: int) -> list:  # pylint: disable=unused-argument
    _warm_up()
    out = [{"fam": "all", "part": i, "of": 32} for i in range(32)]
    if tier != "quick":
        out += [{"fam": "random", "part": i, "of": 16} for i in range(16)]
    return out


def run_shard(shard: dict[str, Any], run: Any) -> None:
    if shard["fam"] == "random":
        cases: Iterator[dict[str, Any]] = gen_random(run)
    else:
        cases = (case for i, case in enumerate(all_cases(run.tier)) if i % shard["of"] == shard["part"])
    for count, case in enumerate(cases):
        if shard["fam"] == "random" and count >= 12000:
            break
        if count % 64 == 0 and run.out_of_time():
            break
        try:
            results, nontrivial = evaluate(case)
        except Exception as err:  # pylint: disable=broad-except
            # the real constructors refused the input (not a valid region): not a case
            run.count(0)
            SKIPPED.append(f"{type(err).__name__}: {err}")
            continue
        for clause, ok, detail in results:
            run.check(clause, ok, case, nontrivial=nontrivial, detail=detail)


SKIPPED: list[str] = []

FINDING_CLASSES: dict[str, Any] = {
    "C19-F1": lambda clause, case: clause == CL_ROW_CROSS,
    "C19-F2": lambda clause, case: clause == CL_ONCE_SINGLE,
    "C19-F3": lambda clause, case: clause in (CL_CORE_SIDE, CL_ORDER_SIDE),
    "C19-F4": lambda clause, case: clause == CL_EXC_FULL,
}
