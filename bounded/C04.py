"""Bounded stand-in for C04 - location algebra agrees with the set-of-bases model on line and ring.

Everything here runs the REAL functions of antismash.common.secmet.locations, Record and Feature and
compares their results with an independent model: a location is the set of bases of its parts
(Python sets on small records, canonical disjoint interval lists on the large "anchor grid" records;
the two model implementations are cross-checked by `_selftest()`), a ring of length L is Z/L.

A location *spec* is a JSON list of parts `[start, end, strand]` in Biopython part order.
A case is a small dict `{"fn": family, ...}`; `replay(case)` re-evaluates every clause for it.
"""
from __future__ import annotations

import itertools
from typing import Any, Callable, Iterable, Iterator, Optional

RULE = (
    "Exhaustive per record length L (quick 1..10, thorough 1..14): every location with integer coordinates in "
    "[0,L] of the shapes simple [s,e), origin-spanning [a,L)+[0,b) (b<=a; b==a is the whole ring), 2-part "
    "multi-exon [a,b)+[c,d) (b<=c, touching included), 3-part multi-exon and 3-part origin-spanning (L<=7 quick "
    "/ <=9 thorough), forward and reverse strand (reverse = Biopython part order reversed). The same shapes on "
    "'anchor grid' records (L=100,101 quick; +12,13,1000,1000001 thorough) with coordinates from "
    "{0,1,L/4,L/2-1,L/2,L/2+1,3L/4,L-1,L} (quick: every 2nd 3-part shape and multi-exon x multi-exon pairs on L=100 "
    "only). Families: (pair/dist) all unordered pairs incl. multi-exon members "
    "for L<=7 (thorough <=12) and grids, for larger L all pairs of contiguous locations plus multi-exon x "
    "contiguous; 3-part x contiguous; overlap and containment in both directions, distance on line and ring in "
    "both argument orders, also through Record (L<=6). (offset) every offset -L-1..L+1 with and without wrap "
    "point (grid: offsets putting each part end on each anchor). (extend) every distance 0..L+1 on linear and "
    "circular records (grid: distances around every coincidence). (connect) every multiset of 1, 2 contiguous "
    "locations, of 3 (L<=6 quick / <=10 thorough, and the 6-anchor grid {0,1,L/2,L/2+1,L-1,L}) and of 4 "
    "(L<=3 / <=5 in every order; quick L=4, thorough L=6 with rotations+reflections only) in EVERY argument order "
    "plus idempotence of every distinct result; on a "
    "line every pair and every 4th triple; a fixed stride sample of pairs with multi-exon members. (string) text "
    "round trip with strands +,-,?,none, operators join/order, fuzzy ends on a third. (bridge) origin-bridging "
    "test, split, make_forwards. (redundant) overlapping/nested exons, 2 parts L<=6, 3 parts L<=5. (build) "
    "leader|core|tail style pieces L<=6. (order) Feature.__lt__ on all triples of contiguous locations L<=5 "
    "(thorough 6). Thorough adds run.rng-seeded random locations and tuples of 2..8 members on L up to 10^7 with "
    "coordinates biased to coincidences. A case is trivial when it is a pair of simple locations separated by "
    ">= 2 bases both ways round, an offset of 0 or an extension by 0; distinct = distinct case."
)
EXHAUSTIVE = {"quick": True, "thorough": False}

SMALL = 64          # up to this record length the model uses explicit Python sets of bases

Spec = list          # [[start, end, strand], ...]


# ------------------------------------------------------------------------------------------------
# model: canonical interval lists and sets of bases
# ------------------------------------------------------------------------------------------------

def _norm(ivs: Iterable[tuple[int, int]]) -> tuple[tuple[int, int], ...]:
    """Canonical form of a set of bases given as half-open intervals: sorted, disjoint, not touching."""
    out: list[list[int]] = []
    for start, end in sorted(ivs):
        if end <= start:
            continue
        if out and start <= out[-1][1]:
            out[-1][1] = max(out[-1][1], end)
        else:
            out.append([start, end])
    return tuple((s, e) for s, e in out)


def _ring(ivs: Iterable[tuple[int, int]], length: int) -> tuple[tuple[int, int], ...]:
    """Intervals with arbitrary integer coordinates taken modulo `length`, canonical form."""
    pieces: list[tuple[int, int]] = []
    for start, end in ivs:
        if end <= start:
            continue
        if end - start >= length:
            return ((0, length),)
        low = start % length
        high = low + (end - start)
        if high <= length:
            pieces.append((low, high))
        else:
            pieces.append((low, length))
            pieces.append((0, high - length))
    return _norm(pieces)


def _from_set(bases: Iterable[int]) -> tuple[tuple[int, int], ...]:
    return _norm((x, x + 1) for x in bases)


def _to_set(ivs: Iterable[tuple[int, int]]) -> set[int]:
    out: set[int] = set()
    for start, end in ivs:
        out.update(range(start, end))
    return out


def _size(ivs: Iterable[tuple[int, int]]) -> int:
    return sum(e - s for s, e in ivs)


def _spec_ivs(spec: Spec) -> list[tuple[int, int]]:
    return [(p[0], p[1]) for p in spec]


def _subset(inner: tuple[tuple[int, int], ...], outer: tuple[tuple[int, int], ...]) -> bool:
    """inner, outer canonical: every base of inner is a base of outer."""
    return all(any(os <= s and e <= oe for os, oe in outer) for s, e in inner)


def _minus(first: tuple[tuple[int, int], ...], second: tuple[tuple[int, int], ...]) -> tuple[tuple[int, int], ...]:
    """first \\ second for canonical interval lists."""
    out = []
    for start, end in first:
        cursor = start
        for s, e in second:
            if e <= cursor or s >= end:
                continue
            if s > cursor:
                out.append((cursor, s))
            cursor = max(cursor, e)
        if cursor < end:
            out.append((cursor, end))
    return _norm(out)


def _forward_order(spec: Spec) -> Spec:
    """Parts in ascending-transcript-on-forward-strand order (Biopython lists reverse-strand parts reversed)."""
    return list(reversed(spec)) if spec[0][2] == -1 else list(spec)


def _break_index(spec: Spec) -> Optional[int]:
    """Index (in forward order) of the first part after the origin, None if the location does not span it."""
    parts = _forward_order(spec)
    for i in range(1, len(parts)):
        if parts[i][0] < parts[i - 1][0]:
            return i
    return None


def _own_span(spec: Spec, length: int) -> list[tuple[int, int]]:
    """The stretch of the record a location runs over from its first to its last part (introns included)."""
    parts = _forward_order(spec)
    cut = _break_index(spec)
    if cut is None:
        return [(min(p[0] for p in parts), max(p[1] for p in parts))]
    return [(min(p[0] for p in parts[:cut]), length), (0, max(p[1] for p in parts[cut:]))]


def _own_gaps(spec: Spec, length: int) -> tuple[tuple[int, int], ...]:
    """Bases of the own span that are not bases of the location (introns)."""
    span = _norm(_own_span(spec, length))
    return _minus(span, _norm(_spec_ivs(spec)))


def _model_overlap(a: Spec, b: Spec) -> bool:
    return any(max(s1, s2) < min(e1, e2) for s1, e1, _ in a for s2, e2, _ in b)


def _model_contains(outer: Spec, inner: Spec) -> bool:
    """Statement: each part of the inner lies inside one part of the outer."""
    return all(any(o[0] <= i[0] and i[1] <= o[1] for o in outer) for i in inner)


def _model_distance(a: Spec, b: Spec, length: int, ring: bool) -> int:
    """0 when they share a base, else the number of bases between them, the shorter way round on a ring."""
    if length <= SMALL:
        first, second = _to_set(_spec_ivs(a)), _to_set(_spec_ivs(b))
        if first & second:
            return 0
        best = None
        for x in first:
            for y in second:
                delta = abs(x - y)
                if ring:
                    delta = min(delta, length - delta)
                if best is None or delta < best:
                    best = delta
        assert best is not None
        return best - 1
    return _model_distance_iv(a, b, length, ring)


def _model_distance_iv(a: Spec, b: Spec, length: int, ring: bool) -> int:
    best = None
    for s1, e1, _ in a:
        for s2, e2, _ in b:
            if max(s1, s2) < min(e1, e2):
                return 0
            if e1 <= s2:
                gap, around = s2 - e1, s1 + length - e2
            else:
                gap, around = s1 - e2, s2 + length - e1
            dist = min(gap, around) if ring else gap
            if best is None or dist < best:
                best = dist
    assert best is not None
    return best


def _model_offset(spec: Spec, offset: int, length: int, ring: bool) -> tuple[tuple[int, int], ...]:
    if length <= SMALL:
        bases = _to_set(_spec_ivs(spec))
        if ring:
            return _from_set((x + offset) % length for x in bases)
        return _from_set(x + offset for x in bases)
    moved = [(s + offset, e + offset) for s, e, _ in spec]
    return _ring(moved, length) if ring else _norm(moved)


def _model_extend(spec: Spec, distance: int, length: int, ring: bool) -> tuple[tuple[int, int], ...]:
    """Bases within `distance` of a base of the location: clipped on a line, wrapped on a ring."""
    if length <= SMALL:
        bases = _to_set(_spec_ivs(spec))
        out = set()
        for x in range(length):
            for y in bases:
                delta = abs(x - y)
                if ring:
                    delta = min(delta, length - delta)
                if delta <= distance:
                    out.add(x)
                    break
        return _from_set(out)
    return _model_extend_iv(spec, distance, length, ring)


def _model_extend_iv(spec: Spec, distance: int, length: int, ring: bool) -> tuple[tuple[int, int], ...]:
    grown = [(s - distance, e + distance) for s, e, _ in spec]
    if ring:
        return _ring(grown, length)
    return _norm((max(0, s), min(length, e)) for s, e in grown)


def _model_shortest_arc(occupied: tuple[tuple[int, int], ...], length: int) -> tuple[int, tuple[tuple[int, int], ...], bool]:
    """(length of the shortest arc covering `occupied`, that arc as canonical intervals, unique?)."""
    if occupied == ((0, length),):
        return length, occupied, True
    gaps = []   # (size, start of the arc that begins right after this gap)
    for i, (start, _) in enumerate(occupied):
        prev_end = occupied[i - 1][1] if i else occupied[-1][1] - length
        gaps.append((start - prev_end, start))
    biggest = max(size for size, _ in gaps)
    starts = [start for size, start in gaps if size == biggest]
    arc_len = length - biggest
    return arc_len, _ring([(starts[0], starts[0] + arc_len)], length), len(starts) == 1


# ------------------------------------------------------------------------------------------------
# real objects
# ------------------------------------------------------------------------------------------------

def _mk(spec: Spec, operator: str = "join") -> Any:
    from antismash.common.secmet.locations import CompoundLocation, FeatureLocation
    parts = [FeatureLocation(p[0], p[1], p[2]) for p in spec]
    if len(parts) == 1:
        return parts[0]
    return CompoundLocation(parts, operator=operator)


def _parts(location: Any) -> list[tuple[int, int]]:
    return [(int(p.start), int(p.end)) for p in location.parts]


def _show(location: Any) -> str:
    try:
        return str(location)
    except Exception:  # pylint: disable=broad-except
        return repr(location)


_RECORDS: dict[tuple[int, bool], Any] = {}


def _record(length: int, circular: bool) -> Any:
    """A real secmet Record of the given length (sequence content is irrelevant to the location helpers)."""
    key = (length, circular)
    if key not in _RECORDS:
        from Bio.Seq import Seq
        from antismash.common.secmet import Record
        if length <= 4096:
            record = Record(Seq("A" * length))
        else:
            record = Record(Seq("A"))
            record.seq = Seq(None, length=length)
        if circular:
            record.add_annotation("topology", "circular")
        assert len(record) == length and record.is_circular() == circular
        if len(_RECORDS) > 64:
            _RECORDS.clear()
        _RECORDS[key] = record
    return _RECORDS[key]


def _well_formed(parts: list[tuple[int, int]], length: Optional[int]) -> str:
    """'' if parts are non-empty, inside the record and mutually disjoint, else what is wrong."""
    for start, end in parts:
        if not start < end:
            return f"empty or inverted part [{start}:{end})"
        if start < 0 or (length is not None and end > length):
            return f"part [{start}:{end}) outside the record of length {length}"
    if _size(parts) != _size(_norm(parts)):
        return f"parts share bases: {parts}"
    return ""


def _span_formed(parts: list[tuple[int, int]], strand: Any, length: int) -> str:
    """Extra shape of a span: at most two parts, the second (forward order) starting at the origin and the
    first reaching the end of the record."""
    if len(parts) > 2:
        return f"span with {len(parts)} parts: {parts}"
    if len(parts) == 2:
        first, second = (parts[1], parts[0]) if strand == -1 else (parts[0], parts[1])
        if second[0] != 0 or first[1] != length:
            return f"two-part span not of the form [x:{length})+[0:y): {parts}"
    return ""


# ------------------------------------------------------------------------------------------------
# location families
# ------------------------------------------------------------------------------------------------

def _points(length: int, grid: bool) -> list[int]:
    if not grid:
        return list(range(length + 1))
    half = length // 2
    raw = {0, 1, length // 4, half - 1, half, half + 1, (3 * length) // 4, length - 1, length}
    if grid == "small":
        raw = {0, 1, half, half + 1, length - 1, length}
    return sorted(p for p in raw if 0 <= p <= length)


def _oriented(parts: list[list[int]], strand: Any) -> Spec:
    spec = [[s, e, strand] for s, e in parts]
    if strand == -1:
        spec.reverse()
    return spec


def _simple(points: list[int], strands: tuple) -> Iterator[Spec]:
    for i, start in enumerate(points):
        for end in points[i + 1:]:
            for strand in strands:
                if strands == ("alt",):
                    strand = 1 if (start + end) % 2 else -1
                yield [[start, end, strand]]


def _wraps(points: list[int], strands: tuple) -> Iterator[Spec]:
    length = points[-1]
    inner = [p for p in points if 0 < p < length]
    for upper in inner:
        for lower in inner:
            if lower > upper:
                break
            for strand in strands:
                yield _oriented([[upper, length], [0, lower]], strand)


def _multi2(points: list[int], strands: tuple) -> Iterator[Spec]:
    for ia, a in enumerate(points):
        for ib in range(ia + 1, len(points)):
            b = points[ib]
            for ic in range(ib, len(points)):
                c = points[ic]
                for d in points[ic + 1:]:
                    for strand in strands:
                        if strands == ("alt",):
                            strand = 1 if (a + b + c + d) % 2 else -1
                        yield _oriented([[a, b], [c, d]], strand)


def _multi3(points: list[int], strands: tuple) -> Iterator[Spec]:
    n = len(points)
    for ia in range(n):
        for ib in range(ia + 1, n):
            for ic in range(ib, n):
                for idx in range(ic + 1, n):
                    for ie in range(idx, n):
                        for i_f in range(ie + 1, n):
                            for strand in strands:
                                yield _oriented([[points[ia], points[ib]], [points[ic], points[idx]],
                                                 [points[ie], points[i_f]]], strand)


def _wrap3(points: list[int], strands: tuple) -> Iterator[Spec]:
    """3-part origin-spanning: two parts before the origin and one after it, or one before and two after."""
    length = points[-1]
    inner = [p for p in points if 0 < p < length]
    for a in inner:                      # [a,b) [c,L) | [0,d)   with a<b<=c<L, 0<d<=a
        for b in inner:
            if b <= a:
                continue
            for c in inner:
                if c < b:
                    continue
                for d in inner:
                    if d > a:
                        break
                    for strand in strands:
                        yield _oriented([[a, b], [c, length], [0, d]], strand)
    for a in inner:                      # [a,L) | [0,b) [c,d)   with 0<b<=c<d<=a
        for b in inner:
            if b >= a:
                break
            for c in inner:
                if c < b:
                    continue
                for d in inner:
                    if d <= c:
                        continue
                    if d > a:
                        break
                    for strand in strands:
                        yield _oriented([[a, length], [0, b], [c, d]], strand)


_FAMILY_CACHE: dict[tuple, list] = {}


def _locs(kind: str, length: int, grid: bool) -> list[Spec]:
    """Named location lists; deterministic so that shards can index into them."""
    key = (kind, length, grid)
    if key in _FAMILY_CACHE:
        return _FAMILY_CACHE[key]
    points = _points(length, grid)
    both = (1, -1)
    if kind == "arcs":          # contiguous: simple + origin-spanning, forward strand
        out = list(_simple(points, (1,))) + list(_wraps(points, (1,)))
    elif kind == "arcs2":       # contiguous, both strands
        out = list(_simple(points, both)) + list(_wraps(points, both))
    elif kind == "pairset":     # simple (alternating strand), origin-spanning both strands, 2-part multi-exon
        out = list(_simple(points, ("alt",))) + list(_wraps(points, both)) + list(_multi2(points, ("alt",)))
    elif kind == "three":       # 3-part shapes, forward and reverse alternating by enumeration index
        out = [spec if i % 2 == 0 else _oriented([[p[0], p[1]] for p in spec], -1)
               for i, spec in enumerate(list(_multi3(points, (1,))) + list(_wrap3(points, (1,))))]
    elif kind == "single":      # everything with at most 2 parts, both strands
        out = (list(_simple(points, both)) + list(_wraps(points, both)) + list(_multi2(points, both)))
    elif kind == "single3":     # 3-part shapes both strands
        out = list(_multi3(points, both)) + list(_wrap3(points, both))
    elif kind == "arcpairs":    # simple (alternating strand) + origin-spanning both strands
        out = list(_simple(points, ("alt",))) + list(_wraps(points, both))
    elif kind == "multi2alt":
        out = list(_multi2(points, ("alt",)))
    elif kind == "linear2":     # what can live on a linear record: simple + 2-part multi-exon
        out = list(_simple(points, ("alt",))) + list(_multi2(points, ("alt",)))
    else:
        raise ValueError(kind)
    if len(_FAMILY_CACHE) > 600:
        _FAMILY_CACHE.clear()
    _FAMILY_CACHE[key] = out
    return out


def _is_wrap(spec: Spec) -> bool:
    return _break_index(spec) is not None


def _is_span(spec: Spec, length: int) -> bool:
    """One part, or two parts [x,L)+[0,y) (forward order): the shape of area locations."""
    if len(spec) == 1:
        return True
    forward = _forward_order(spec)
    return len(spec) == 2 and forward[0][1] == length and forward[1][0] == 0


# ------------------------------------------------------------------------------------------------
# evaluators: each returns a list of (clause, ok, nontrivial, detail)
# ------------------------------------------------------------------------------------------------

Outcome = list  # of (clause, ok, nontrivial, detail)


def _guard(call: Callable[[], Any]) -> tuple[bool, Any]:
    """Run real code; (True, value) or (False, 'ExcType: text')."""
    try:
        return True, call()
    except BaseException as err:  # pylint: disable=broad-except
        if isinstance(err, (KeyboardInterrupt, SystemExit, MemoryError)):
            raise
        return False, f"{type(err).__name__}: {str(err)[:200]}"


def _eval_pair(case: dict) -> Outcome:
    """overlap and containment, both argument orders."""
    from antismash.common.secmet.locations import location_contains_other, locations_overlap
    a, b, length = case["a"], case["b"], case["L"]
    share = _model_overlap(a, b)
    boring = len(a) == 1 and len(b) == 1 and not share and _model_distance_iv(a, b, length, True) >= 2
    first, second = _mk(a), _mk(b)
    okc, got = _guard(lambda: (locations_overlap(first, second), locations_overlap(second, first),
                               location_contains_other(first, second), location_contains_other(second, first)))
    if not okc:
        return [("overlap-contains-no-unexpected-exception", False, not boring, str(got))]
    want_ab, want_ba = _model_contains(a, b), _model_contains(b, a)
    return [
        ("overlap-iff-share-base", got[0] is share and got[1] is share, not boring,
         f"locations_overlap gave {got[0]} (a,b) / {got[1]} (b,a); the locations "
         f"{'share' if share else 'do not share'} a base"),
        ("contains-iff-each-inner-part-inside-one-outer-part", got[2] is want_ab and got[3] is want_ba, not boring,
         f"location_contains_other gave {got[2]} (a contains b) / {got[3]} (b contains a); "
         f"statement gives {want_ab} / {want_ba}"),
    ]


def _envelopes_meet(a: Spec, b: Spec) -> bool:
    return (min(p[0] for p in a) < max(p[1] for p in b)) and (min(p[0] for p in b) < max(p[1] for p in a))


def _eval_dist(case: dict) -> Outcome:
    """distance on a line (wrap False) or ring (wrap True), both argument orders, optionally via Record."""
    from antismash.common.secmet.locations import get_distance_between_locations
    a, b, length, ring = case["a"], case["b"], case["L"], case["wrap"]
    want = _model_distance(a, b, length, ring)
    boring = len(a) == 1 and len(b) == 1 and want >= 2 and _model_distance_iv(a, b, length, True) >= 2
    first, second = _mk(a), _mk(b)
    if case.get("via") == "record":
        record = _record(length, ring)
        okc, got = _guard(lambda: (record.get_distance_between_locations(first, second),
                                   record.get_distance_between_locations(second, first)))
    else:
        wrap_point = length if ring else None
        okc, got = _guard(lambda: (get_distance_between_locations(first, second, wrap_point),
                                   get_distance_between_locations(second, first, wrap_point)))
    if not okc:
        return [("distance-no-unexpected-exception", False, not boring, str(got))]
    got1, got2 = got
    detail = f"distance gave {got1} (a,b) / {got2} (b,a); bases between them (shorter way round): {want}"
    out: Outcome = [("distance-independent-of-argument-order", got1 == got2, not boring, detail)]
    if _model_overlap(a, b):
        out.append(("distance-zero-when-sharing-a-base", got1 == 0 and got2 == 0, not boring, detail))
    out.append(("distance-not-below-bases-between", got1 >= want and got2 >= want, not boring, detail))
    out.append(("distance-not-above-bases-between", got1 <= want and got2 <= want, not boring, detail))
    return out


def _eval_offset(case: dict) -> Outcome:
    from antismash.common.secmet.locations import offset_location
    spec, length, ring, offset = case["loc"], case["L"], case["wrap"], case["off"]
    nontrivial = offset != 0
    okc, got = _guard(lambda: offset_location(_mk(spec), offset, wrap_point=length if ring else None))
    if not okc:
        return [("offset-no-unexpected-exception", False, nontrivial, str(got))]
    out: Outcome = [("offset-no-unexpected-exception", True, nontrivial, "")]
    parts = _parts(got)
    want = _model_offset(spec, offset, length, ring)
    out.append(("offset-rotates-the-same-bases", _norm(parts) == want, nontrivial,
                f"got {_show(got)}, expected bases {want}"))
    strands = {p.strand for p in got.parts}
    out.append(("offset-keeps-length-and-strand",
                len(got) == _size(_spec_ivs(spec)) and strands == {spec[0][2]} and got.strand == spec[0][2],
                nontrivial, f"got {_show(got)} (len {len(got)}), input length {_size(_spec_ivs(spec))} "
                            f"strand {spec[0][2]}"))
    problem = _well_formed(parts, length if ring else None)
    out.append(("offset-result-well-formed", not problem, nontrivial, f"{problem}; got {_show(got)}"))
    return out


def _eval_extend(case: dict) -> Outcome:
    spec, length, circular, distance = case["loc"], case["L"], case["circ"], case["d"]
    nontrivial = distance != 0
    record = _record(length, circular)
    okc, got = _guard(lambda: record.extend_location(_mk(spec), distance))
    if not okc:
        return [("extend-no-unexpected-exception", False, nontrivial, str(got))]
    out: Outcome = [("extend-no-unexpected-exception", True, nontrivial, "")]
    parts = _parts(got)
    bad_coordinates = any(not 0 <= s < e <= length for s, e in parts)
    got_bases = _norm(parts) if not bad_coordinates else _norm((max(0, s), min(length, e)) for s, e in parts)
    want = _model_extend(spec, distance, length, circular)
    gaps = _own_gaps(spec, length)
    detail = f"got {_show(got)}, bases within {distance}: {want}"
    out.append(("extend-covers-only-bases-within-distance", _subset(got_bases, want), nontrivial, detail))
    out.append(("extend-covers-all-bases-within-distance", _subset(want, got_bases), nontrivial, detail))
    if gaps:
        # implied by the two clauses above; keeps sensitivity for inputs inside finding C04-F3
        out.append(("extend-covers-all-bases-within-distance-outside-own-introns",
                    _subset(_minus(want, gaps), got_bases), nontrivial, detail))
    problem = _well_formed(parts, length)
    if not problem and _is_span(spec, length):
        problem = _span_formed(parts, got.strand if got.strand is not None else spec[0][2], length)
    out.append(("extend-result-well-formed", not problem, nontrivial, f"{problem}; got {_show(got)}"))
    return out


def _connect_model(specs: list[Spec], length: int, ring: bool) -> dict:
    raw = [iv for spec in specs for iv in _spec_ivs(spec)]
    hull = (min(s for s, _ in raw), max(e for _, e in raw))
    if not ring:
        return {"hull": hull}
    occupied = _norm(iv for spec in specs for iv in _own_span(spec, length))
    arc_len, arc, unique = _model_shortest_arc(occupied, length)
    return {"hull": hull, "occupied": occupied, "arc_len": arc_len, "arc": arc, "unique": unique}


def _eval_connect(case: dict) -> Outcome:
    """connect_locations on every argument order of the multiset `locs`."""
    from antismash.common.secmet.locations import connect_locations
    specs, length, ring = case["locs"], case["L"], case["wrap"]
    via_record = case.get("via") == "record"
    model = _connect_model(specs, length, ring)
    hull = model["hull"]

    def call(items: list[Spec]) -> Any:
        if via_record:
            return _record(length, ring).connect_locations([_mk(s) for s in items])
        return connect_locations([_mk(s) for s in items], wrap_point=length if ring else None)

    orders = sorted(set(itertools.permutations(range(len(specs)))))
    if case.get("orders") == "rotations":
        n = len(specs)
        orders = sorted({tuple((i + k) % n for i in range(n)) for k in range(n)}
                        | {tuple((k - i) % n for i in range(n)) for k in range(n)})
    verdict = {"connect-no-unexpected-exception": "", "connect-covers-all-inputs": "",
               "connect-result-well-formed-span": ""}
    if ring:
        verdict["connect-ring-not-longer-than-linear-hull"] = ""
        verdict["connect-ring-shortest-arc-when-shorter-than-half"] = ""
    else:
        verdict["connect-line-exact-hull"] = ""
    verdict["connect-independent-of-argument-order"] = ""
    verdict["connect-idempotent"] = ""
    seen: dict[str, tuple] = {}
    checked_twice: set[str] = set()
    for order in orders:
        items = [specs[i] for i in order]
        okc, got = _guard(lambda it=items: call(it))
        tag = f"order {list(order)}: "
        if not okc:
            verdict["connect-no-unexpected-exception"] = verdict["connect-no-unexpected-exception"] or tag + str(got)
            continue
        parts = _parts(got)
        seen.setdefault(_show(got), order)
        problem = _well_formed(parts, length if ring else None) or _span_formed(parts, 1, length)
        if not ring and not problem and len(parts) != 1:
            problem = f"{len(parts)} parts on a line"
        if problem:
            verdict["connect-result-well-formed-span"] = verdict["connect-result-well-formed-span"] or \
                tag + problem + f"; got {_show(got)}"
            continue
        bases = _norm(parts)
        if ring:
            if not _subset(model["occupied"], bases):
                verdict["connect-covers-all-inputs"] = tag + f"got {_show(got)}, inputs occupy {model['occupied']}"
            if _size(bases) > hull[1] - hull[0]:
                verdict["connect-ring-not-longer-than-linear-hull"] = \
                    tag + f"got {_show(got)} ({_size(bases)} bases), linear hull [{hull[0]}:{hull[1]})"
            if 2 * model["arc_len"] < length and bases != model["arc"]:
                verdict["connect-ring-shortest-arc-when-shorter-than-half"] = \
                    tag + f"got {_show(got)}, shortest covering arc {model['arc']} ({model['arc_len']} < {length}/2)"
        else:
            if not _subset(_norm(iv for spec in specs for iv in _spec_ivs(spec)), bases):
                verdict["connect-covers-all-inputs"] = tag + f"got {_show(got)}"
            if bases != (hull,):
                verdict["connect-line-exact-hull"] = tag + f"got {_show(got)}, hull [{hull[0]}:{hull[1]})"
        # applying the operation twice (once per distinct result: the other orders gave the same location)
        if _show(got) in checked_twice:
            continue
        checked_twice.add(_show(got))
        ok2, again = _guard(lambda g=got: connect_locations([g], wrap_point=length if ring else None))
        if not ok2:
            verdict["connect-idempotent"] = tag + f"connect([{_show(got)}]) raised {again}"
        elif _parts(again) != parts:
            verdict["connect-idempotent"] = tag + f"connect([{_show(got)}]) gave {_show(again)}"
    if len(seen) > 1:
        verdict["connect-independent-of-argument-order"] = \
            "; ".join(f"order {list(order)} -> {text}" for text, order in seen.items())
    if verdict["connect-no-unexpected-exception"]:
        return [("connect-no-unexpected-exception", False, True, verdict["connect-no-unexpected-exception"])]
    return [(clause, not text, True, text) for clause, text in verdict.items()]


def _eval_string(case: dict) -> Outcome:
    from Bio.SeqFeature import AfterPosition, BeforePosition
    from antismash.common.secmet.locations import CompoundLocation, FeatureLocation, location_from_string
    spec, operator, fuzzy = case["loc"], case.get("op", "join"), case.get("fuzzy", "")
    parts = []
    for i, (start, end, strand) in enumerate(spec):
        if "<" in fuzzy and i == 0:
            start = BeforePosition(start)
        if ">" in fuzzy and i == len(spec) - 1:
            end = AfterPosition(end)
        parts.append(FeatureLocation(start, end, strand))
    location = parts[0] if len(parts) == 1 else CompoundLocation(parts, operator=operator)
    text = str(location)
    okc, got = _guard(lambda: location_from_string(text))
    if not okc:
        return [("text-form-no-unexpected-exception", False, True, f"{text!r}: {got}")]
    same = (got == location and type(got) is type(location) and str(got) == text and repr(got) == repr(location)
            and [p.strand for p in got.parts] == [p.strand for p in location.parts]
            and getattr(got, "operator", None) == getattr(location, "operator", None))
    return [("text-form-reads-back-to-same-location", same, True, f"{text!r} read back as {got!r}")]


def _eval_bridge(case: dict) -> Outcome:
    """origin-bridging test, the split around the origin, make_forwards."""
    from antismash.common.secmet.locations import (location_bridges_origin, make_forwards,
                                                   split_origin_bridging_location)
    spec = case["loc"]
    cut = _break_index(spec)
    out: Outcome = []
    okc, got = _guard(lambda: location_bridges_origin(_mk(spec)))
    if not okc:
        return [("bridges-no-unexpected-exception", False, True, str(got))]
    out.append(("bridges-origin-iff-part-order-wraps", got is (cut is not None), True,
                f"location_bridges_origin gave {got} for {spec}"))
    if cut is not None:
        oks, halves = _guard(lambda: split_origin_bridging_location(_mk(spec)))
        if not oks:
            out.append(("split-no-unexpected-exception", False, True, str(halves)))
        else:
            lower, upper = halves
            forward = _forward_order(spec)
            want_upper = sorted((p[0], p[1]) for p in forward[:cut])
            want_lower = sorted((p[0], p[1]) for p in forward[cut:])
            got_lower = sorted((int(p.start), int(p.end)) for p in lower)
            got_upper = sorted((int(p.start), int(p.end)) for p in upper)
            out.append(("split-partitions-parts-around-origin",
                        got_lower == want_lower and got_upper == want_upper, True,
                        f"split gave lower {got_lower} upper {got_upper}, expected lower {want_lower} "
                        f"upper {want_upper}"))
    okf, fwd = _guard(lambda: make_forwards(_mk(spec)))
    if not okf:
        out.append(("make-forwards-no-unexpected-exception", False, True, str(fwd)))
    else:
        want_parts = [(p[0], p[1]) for p in _forward_order(spec)]
        okf2, again = _guard(lambda: make_forwards(fwd))
        out.append(("make-forwards-same-bases-forward-strand",
                    _parts(fwd) == want_parts and all(p.strand == 1 for p in fwd.parts)
                    and okf2 and _parts(again) == want_parts, True,
                    f"make_forwards gave {_show(fwd)}, expected parts {want_parts} on strand +"))
    return out


def _eval_redundant(case: dict) -> Outcome:
    """remove_redundant_exons on locations whose parts may contain each other."""
    from antismash.common.secmet.locations import remove_redundant_exons
    spec = case["loc"]
    okc, got = _guard(lambda: remove_redundant_exons(_mk(spec)))
    if not okc:
        return [("redundant-exons-no-unexpected-exception", False, True, str(got))]
    parts = _parts(got)
    before = _norm(_spec_ivs(spec))
    nested = any(a != b and a[0] <= b[0] and b[1] <= a[1] for a in parts for b in parts)
    ok2, again = _guard(lambda: remove_redundant_exons(got))
    return [
        ("redundant-exons-same-bases", _norm(parts) == before, True, f"got {_show(got)} from {spec}"),
        ("redundant-exons-none-kept-inside-another", not nested, True, f"got {_show(got)} from {spec}"),
        ("redundant-exons-idempotent", ok2 and _parts(again) == parts, True,
         f"second application gave {_show(again) if ok2 else again}"),
    ]


def _eval_build(case: dict) -> Outcome:
    """build_location_from_others on consecutive disjoint pieces (leader/core/tail style)."""
    from antismash.common.secmet.locations import build_location_from_others
    pieces = case["locs"]
    okc, got = _guard(lambda: build_location_from_others([_mk(s) for s in pieces]))
    if not okc:
        return [("build-from-others-no-unexpected-exception", False, True, str(got))]
    parts = _parts(got)
    want = _norm(iv for spec in pieces for iv in _spec_ivs(spec))
    problem = _well_formed(parts, None)
    return [
        ("build-from-others-same-bases", _norm(parts) == want, True, f"got {_show(got)} from {pieces}"),
        ("build-from-others-well-formed", not problem, True, f"{problem}; got {_show(got)}"),
    ]


def _wrapped_start(spec: Spec, length: int) -> int:
    cut = _break_index(spec)
    if cut is None:
        return min(p[0] for p in spec)
    forward = _forward_order(spec)
    return min(p[0] for p in forward[:cut]) - length


def _eval_order(case: dict) -> Outcome:
    """Feature.__lt__ on a triple: strict weak order, origin-spanning features first by wrapped start."""
    from antismash.common.secmet.features import Feature
    specs, length = case["locs"], case["L"]
    okc, feats = _guard(lambda: [Feature(_mk(s), "misc_feature") for s in specs])
    if not okc:
        return [("order-no-unexpected-exception", False, True, str(feats))]
    n = len(feats)
    okc, less = _guard(lambda: [[feats[i] < feats[j] for j in range(n)] for i in range(n)])
    if not okc:
        return [("order-no-unexpected-exception", False, True, str(less))]
    okl, less_loc = _guard(lambda: [[feats[i] < feats[j].location for j in range(n)] for i in range(n)])
    asym = all(not (less[i][j] and less[j][i]) for i in range(n) for j in range(n))
    trans = all(less[i][k] or not (less[i][j] and less[j][k])
                for i in range(n) for j in range(n) for k in range(n))
    incomp = [[not less[i][j] and not less[j][i] for j in range(n)] for i in range(n)]
    itrans = all(incomp[i][k] or not (incomp[i][j] and incomp[j][k])
                 for i in range(n) for j in range(n) for k in range(n))
    keys = [_wrapped_start(s, length) for s in specs]
    first = all(less[i][j] and not less[j][i] for i in range(n) for j in range(n) if keys[i] < keys[j])
    text = f"'<' matrix {less} for {specs}"
    return [
        ("order-strict-and-asymmetric", asym, True, text),
        ("order-transitive", trans, True, text),
        ("order-incomparability-transitive", itrans, True, text),
        ("order-by-wrapped-start-origin-spanning-first", first, True, f"{text}; wrapped starts {keys}"),
        ("order-same-against-bare-location", okl and less_loc == less, True, f"{less_loc} vs {less}"),
    ]


EVALUATORS: dict[str, Callable[[dict], Outcome]] = {
    "pair": _eval_pair,
    "dist": _eval_dist,
    "offset": _eval_offset,
    "extend": _eval_extend,
    "connect": _eval_connect,
    "string": _eval_string,
    "bridge": _eval_bridge,
    "redundant": _eval_redundant,
    "build": _eval_build,
    "order": _eval_order,
}


def evaluate(case: dict) -> Outcome:
    return EVALUATORS[case["fn"]](case)


def replay(case: dict) -> list[str]:
    return [f"{_label(clause, case)}: {detail}" for clause, ok, _, detail in evaluate(case) if not ok]


# ------------------------------------------------------------------------------------------------
# known findings on the pinned tree (see /verif/known_findings.json)
# ------------------------------------------------------------------------------------------------

def _f1_offset_end_on_wrap_point(clause: str, case: dict) -> bool:
    """offset_location: some part's shifted end lands exactly on the wrap point (assert 0 <= start < end)."""
    if clause != "offset-no-unexpected-exception" or case.get("fn") != "offset" or not case.get("wrap"):
        return False
    length, offset = case["L"], case["off"]
    if offset == 0 or _size(_spec_ivs(case["loc"])) == length:
        return False
    return any((p[1] + offset) % length == 0 for p in case["loc"])


def _f2_distance_envelope(clause: str, case: dict) -> bool:
    """get_distance_between_locations: a multi-part argument whose envelope [start,end) meets the other's."""
    if clause != "distance-not-above-bases-between" or case.get("fn") != "dist":
        return False
    a, b = case["a"], case["b"]
    return (len(a) > 1 or len(b) > 1) and _envelopes_meet(a, b)


def _f3_extend_keeps_introns(clause: str, case: dict) -> bool:
    """Record.extend_location only moves the outer ends: intron bases within the distance are left out."""
    if clause != "extend-covers-all-bases-within-distance" or case.get("fn") != "extend":
        return False
    return case["d"] > 0 and bool(_own_gaps(case["loc"], case["L"]))


def _f4_extend_origin_spanning_overrun(clause: str, case: dict) -> bool:
    """Record.extend_location on a circular record, origin-spanning input [a,L)+..+[0,b), extended so far that
    the two outer ends meet (2d >= a-b). 2-part inputs fail exactly when an end passes a record edge again
    (b+d > L or a-d < 0) outside the special first branch; inputs with more parts can also keep an interior
    exon next to the merged ends: overlapping / too many parts are returned."""
    if clause != "extend-result-well-formed" or case.get("fn") != "extend" or not case.get("circ"):
        return False
    spec, length, dist = case["loc"], case["L"], case["d"]
    if _break_index(spec) is None:
        return False
    forward = _forward_order(spec)
    upper_start, lower_end = forward[0][0], forward[-1][1]
    if len(spec) > 2:
        # the two extended ends meet (this includes an end passing a record edge again)
        return 2 * dist >= upper_start - lower_end
    first_branch = upper_start - dist < 0 and upper_start - dist + length <= lower_end + dist
    if first_branch:
        return False
    return (upper_start - dist < 0
            or (lower_end + dist > length and lower_end + dist - length <= upper_start - dist))


def _f5_offset_touching_chain(clause: str, case: dict) -> bool:
    """offset_location on a ring: after shifting/splitting, three or more consecutive pieces touch
    (p.end == q.start, q.end == r.start); the merge loop restarts from the previous *unmerged* piece and
    drops the head of the chain."""
    if clause not in ("offset-rotates-the-same-bases", "offset-keeps-length-and-strand"):
        return False
    if case.get("fn") != "offset" or not case.get("wrap") or case["off"] == 0:
        return False
    length, offset = case["L"], case["off"]
    pieces: list[tuple[int, int]] = []
    for start, end, _ in case["loc"]:
        low, high = (start + offset) % length, (end + offset) % length
        if low < high:
            pieces.append((low, high))
        else:
            pieces.extend([(low, length), (0, high)])
    return any(pieces[i][1] == pieces[i + 1][0] and pieces[i + 1][1] == pieces[i + 2][0]
               for i in range(len(pieces) - 2))


_RAW_CLASSES: dict[str, Callable[[str, Any], bool]] = {
    "C04-F5": _f5_offset_touching_chain,
    "C04-F1": _f1_offset_end_on_wrap_point,
    "C04-F2": _f2_distance_envelope,
    "C04-F3": _f3_extend_keeps_introns,
    "C04-F4": _f4_extend_origin_spanning_overrun,
}


_DOMAIN_TAG = " [inputs of "


def _label(clause: str, case: dict) -> str:
    """Evaluations on inputs inside the class of a listed finding are reported under their own clause label
    (`<clause> [inputs of Cxx-Fn]`), so that the known failures cannot crowd the driver's per-clause
    failure samples and hide a new violation of the same clause on other inputs. The clause itself is the same
    strict one on both sides."""
    for finding, predicate in _RAW_CLASSES.items():
        if predicate(clause, case):
            return f"{clause}{_DOMAIN_TAG}{finding}]"
    return clause


def _stripped(predicate: Callable[[str, Any], bool]) -> Callable[[str, Any], bool]:
    return lambda clause, case: predicate(clause.split(_DOMAIN_TAG)[0], case)


FINDING_CLASSES: dict[str, Callable[[str, Any], bool]] = {
    finding: _stripped(predicate) for finding, predicate in _RAW_CLASSES.items()
}


# ------------------------------------------------------------------------------------------------
# enumeration: units of work -> cases
# ------------------------------------------------------------------------------------------------

def _bounds(tier: str) -> dict:
    if tier == "quick":
        return {"L": 10, "pairs": 7, "three": 7, "triples": 6, "quads": 3, "quads_rot": 4,
                "grids": [100, 101], "grids3": [100], "full_pair_grids": [100], "order": 5, "random_s": 0}
    return {"L": 14, "pairs": 12, "three": 9, "triples": 10, "quads": 5, "quads_rot": 6,
            "grids": [12, 13, 100, 101, 1000, 1000001], "grids3": [12, 13, 100, 101],
            "full_pair_grids": [12, 13, 100, 101, 1000, 1000001], "order": 6, "random_s": 45}


def _units(tier: str) -> list[dict]:
    """Deterministic list of work units with a rough cost (estimated microseconds)."""
    bound = _bounds(tier)
    units: list[dict] = []
    sizes = [(length, False) for length in range(1, bound["L"] + 1)] + [(g, True) for g in bound["grids"]]
    for length, grid in sizes:
        base = {"L": length, "grid": grid}
        stride3 = 2 if (grid and tier == "quick") else 1     # quick: every 2nd 3-part shape on the grids
        kind = "pairset" if (grid and length in bound["full_pair_grids"]) or \
            (not grid and length <= bound["pairs"]) else "arcpairs"
        n_pair = len(_locs(kind, length, grid))
        for i in range(n_pair):
            units.append({**base, "fam": "pair", "set": kind, "i": i, "cost": 150 * (n_pair - i)})
        with_three = (not grid and length <= bound["three"]) or (grid and length in bound["grids3"])
        n_arcs = len(_locs("arcs", length, grid))
        if with_three:
            n_three = len(_locs("three", length, grid))
            for i in range(0, n_three, 16):
                units.append({**base, "fam": "pair3", "i": i, "stride": stride3,
                              "cost": 200 * n_arcs * min(16, n_three - i) // stride3})
        if kind == "arcpairs":
            n_multi = len(_locs("multi2alt", length, grid))
            for i in range(0, n_multi, 16):
                units.append({**base, "fam": "pairmulti", "i": i, "cost": 200 * n_arcs * min(16, n_multi - i)})
        n_single = len(_locs("single", length, grid))
        step = 8
        per_offset = (2 * length + 3) if not grid else 50
        per_extend = (length + 2) if not grid else 25
        for i in range(0, n_single, step):
            units.append({**base, "fam": "offset", "i": i, "n": step, "cost": 150 * step * per_offset})
            units.append({**base, "fam": "extend", "i": i, "n": step, "cost": 200 * step * per_extend})
        if with_three:
            n3 = len(_locs("single3", length, grid))
            for i in range(0, n3, 32):
                units.append({**base, "fam": "offset3", "i": i, "n": 32, "stride": stride3,
                              "cost": 150 * 32 * per_offset // stride3})
                units.append({**base, "fam": "extend3", "i": i, "n": 32, "stride": stride3,
                              "cost": 200 * 32 * per_extend // stride3})
        for i in range(n_arcs):
            units.append({**base, "fam": "connect2", "i": i, "cost": 600 * (n_arcs - i)})
        if grid or length <= bound["triples"]:
            small = "small" if grid else False
            n_tri = len(_locs("arcs", length, small))
            for i in range(n_tri):
                rest = n_tri - i
                units.append({"L": length, "grid": small, "fam": "connect3", "i": i,
                              "cost": 1000 * rest * (rest + 1) // 2})
        if not grid and length <= bound["quads_rot"]:
            for i in range(n_arcs):
                rest = n_arcs - i
                full = length <= bound["quads"]
                units.append({**base, "fam": "connect4", "i": i, "orders": "all" if full else "rotations",
                              "cost": (4500 if full else 1600) * rest * (rest + 1) * (rest + 2) // 6})
        units.append({**base, "fam": "connectmulti", "cost": 200 * 3000})
        units.append({**base, "fam": "string", "cost": 100 * n_single})
        units.append({**base, "fam": "bridge", "cost": 60 * n_single})
        if not grid and length <= 6:
            units.append({**base, "fam": "redundant", "cost": 40 * 4000})
            units.append({**base, "fam": "build", "cost": 40 * 1000})
        if not grid and length <= bound["order"]:
            n_ord = len(_locs("arcpairs", length, grid))
            for i in range(n_ord):
                units.append({**base, "fam": "order", "i": i, "cost": 450 * (n_ord - i) * (n_ord - i + 1) // 2})
        if not grid and length <= 6:
            units.append({**base, "fam": "viarecord", "cost": 500 * n_arcs * n_arcs})
    return units


def shards(tier: str, seed: int) -> list:
    units = _units(tier)
    count = 48 if tier == "quick" else 64
    bins: list[dict] = [{"units": [], "cost": 0, "random": 0} for _ in range(count)]
    for unit in sorted(units, key=lambda u: -u["cost"]):
        target = min(bins, key=lambda b: b["cost"])
        target["units"].append(unit)
        target["cost"] += unit["cost"]
    budget = _bounds(tier)["random_s"]
    for index, shard in enumerate(bins):
        shard["random"] = budget
        shard["index"] = index
        shard["tier"] = tier
    del seed   # randomness comes from run.rng (seed and shard index)
    return bins


def _cases_of(unit: dict) -> Iterator[dict]:
    """All cases of one unit, in a deterministic order."""
    fam, length, grid = unit["fam"], unit["L"], unit["grid"]
    if fam == "pair":
        locs = _locs(unit.get("set", "pairset"), length, grid)
        a = locs[unit["i"]]
        for b in locs[unit["i"]:]:
            yield {"fn": "pair", "L": length, "a": a, "b": b}
            yield {"fn": "dist", "L": length, "wrap": True, "a": a, "b": b}
            if not _is_wrap(a) and not _is_wrap(b):
                yield {"fn": "dist", "L": length, "wrap": False, "a": a, "b": b}
    elif fam in ("pair3", "pairmulti"):
        threes = _locs("three" if fam == "pair3" else "multi2alt", length, grid)[unit["i"]:unit["i"] + 16]
        threes = threes[::unit.get("stride", 1)]
        arcs = _locs("arcs", length, grid)
        for a in threes:
            for b in arcs + threes[:2]:
                yield {"fn": "pair", "L": length, "a": a, "b": b}
                yield {"fn": "dist", "L": length, "wrap": True, "a": a, "b": b}
                if not _is_wrap(a) and not _is_wrap(b):
                    yield {"fn": "dist", "L": length, "wrap": False, "a": a, "b": b}
    elif fam in ("offset", "offset3"):
        locs = _locs("single" if fam == "offset" else "single3", length, grid)[unit["i"]:unit["i"] + unit["n"]]
        for spec in locs[::unit.get("stride", 1)]:
            for offset in _offsets(spec, length, grid):
                yield {"fn": "offset", "L": length, "wrap": True, "loc": spec, "off": offset}
                if not _is_wrap(spec) and min(p[0] for p in spec) + offset >= 0:
                    yield {"fn": "offset", "L": length, "wrap": False, "loc": spec, "off": offset}
    elif fam in ("extend", "extend3"):
        locs = _locs("single" if fam == "extend" else "single3", length, grid)[unit["i"]:unit["i"] + unit["n"]]
        for spec in locs[::unit.get("stride", 1)]:
            for distance in _distances(spec, length, grid):
                yield {"fn": "extend", "L": length, "circ": True, "loc": spec, "d": distance}
                if not _is_wrap(spec):
                    yield {"fn": "extend", "L": length, "circ": False, "loc": spec, "d": distance}
    elif fam == "connect2":
        arcs = _locs("arcs", length, grid)
        a = arcs[unit["i"]]
        if unit["i"] == 0:
            for single in _locs("arcs2", length, grid):
                yield {"fn": "connect", "L": length, "wrap": True, "locs": [single]}
                if not _is_wrap(single):
                    yield {"fn": "connect", "L": length, "wrap": False, "locs": [single]}
        for j, b in enumerate(arcs[unit["i"]:]):
            # strands: forward, and every third pair with a reverse-strand member
            if j % 3 == 1:
                b = _oriented([[p[0], p[1]] for p in _forward_order(b)], -1)
            yield {"fn": "connect", "L": length, "wrap": True, "locs": [a, b]}
            if not _is_wrap(a) and not _is_wrap(b):
                yield {"fn": "connect", "L": length, "wrap": False, "locs": [a, b]}
    elif fam == "connect3":
        arcs = _locs("arcs", length, grid)
        i = unit["i"]
        for j in range(i, len(arcs)):
            for k in range(j, len(arcs)):
                trio = [arcs[i], arcs[j], arcs[k]]
                yield {"fn": "connect", "L": length, "wrap": True, "locs": trio}
                if not grid and not any(_is_wrap(s) for s in trio) and (i + j + k) % 4 == 0:
                    yield {"fn": "connect", "L": length, "wrap": False, "locs": trio}
    elif fam == "connect4":
        arcs = _locs("arcs", length, grid)
        i = unit["i"]
        for j in range(i, len(arcs)):
            for k in range(j, len(arcs)):
                for m in range(k, len(arcs)):
                    case = {"fn": "connect", "L": length, "wrap": True, "locs": [arcs[i], arcs[j], arcs[k], arcs[m]]}
                    if unit.get("orders") == "rotations":
                        case["orders"] = "rotations"
                    yield case
    elif fam == "connectmulti":
        # multi-exon members (each is covered as a whole: its own span, introns included)
        multi = _locs("linear2", length, grid)
        three = _locs("three", length, grid) if (length <= 7 or grid) else []
        arcs = _locs("arcs", length, grid)
        pool = [m for m in multi if len(m) > 1]
        if length > 5:
            pool = pool[::-(-len(pool) // 70)]
        extra = three[::-(-len(three) // 30)] if three else []
        for a in pool + extra:
            for b in arcs[::-(-len(arcs) // 24)] + pool[::-(-len(pool) // 8)]:
                yield {"fn": "connect", "L": length, "wrap": True, "locs": [a, b]}
                if not _is_wrap(a) and not _is_wrap(b):
                    yield {"fn": "connect", "L": length, "wrap": False, "locs": [a, b]}
    elif fam == "string":
        for spec in _locs("single", length, grid):
            strand = spec[0][2]
            for variant in ((strand,), (0, None)) if len(spec) == 1 or strand == 1 else ((strand,),):
                for use in variant:
                    redone = [[p[0], p[1], use] for p in spec]
                    yield {"fn": "string", "L": length, "loc": redone, "op": "join"}
            if len(spec) > 1:
                yield {"fn": "string", "L": length, "loc": spec, "op": "order"}
            if (spec[0][0] + spec[-1][1]) % 3 == 0:
                for fuzzy in ("<", ">", "<>"):
                    yield {"fn": "string", "L": length, "loc": spec, "op": "join", "fuzzy": fuzzy}
        if length <= 8 or grid:
            for spec in _locs("single3", length, grid)[::3]:
                yield {"fn": "string", "L": length, "loc": spec, "op": "join"}
    elif fam == "bridge":
        for spec in _locs("single", length, grid):
            yield {"fn": "bridge", "L": length, "loc": spec}
        if length <= 8 or grid:
            for spec in _locs("single3", length, grid):
                yield {"fn": "bridge", "L": length, "loc": spec}
    elif fam == "redundant":
        simple = [s[0][:2] for s in _simple(list(range(length + 1)), (1,))]
        for count in (2, 3):
            if count == 3 and length > 5:
                continue
            for combo in itertools.product(simple, repeat=count):
                for strand in (1, -1):
                    yield {"fn": "redundant", "L": length, "loc": [[p[0], p[1], strand] for p in combo]}
    elif fam == "build":
        points = list(range(length + 1))
        for cuts in itertools.combinations(points, 4):          # leader | core | tail, touching
            a, b, c, d = cuts
            yield {"fn": "build", "L": length, "locs": [[[a, b, 1]], [[b, c, 1]], [[c, d, 1]]]}
            yield {"fn": "build", "L": length, "locs": [[[a, b, 1]], [[c, d, 1]]]}
            yield {"fn": "build", "L": length, "locs": [[[a, b, -1]], [[b, c, -1]], [[c, d, -1]]]}
            yield {"fn": "build", "L": length, "locs": [[[c, d, -1]], [[b, c, -1]], [[a, b, -1]]]}
        for multi in _multi2(points, (1,)):
            (a, b, _), (c, d, _) = multi
            for e in range(d, length + 1):
                for f in range(e + 1, length + 1):
                    yield {"fn": "build", "L": length, "locs": [multi, [[e, f, 1]]]}
            for mid in range(a + 1, b):
                yield {"fn": "build", "L": length, "locs": [[[a, mid, 1]], [[mid, b, 1], [c, d, 1]]]}
    elif fam == "order":
        locs = _locs("arcpairs", length, grid)
        i = unit["i"]
        for j in range(i, len(locs)):
            for k in range(j, len(locs)):
                yield {"fn": "order", "L": length, "locs": [locs[i], locs[j], locs[k]]}
    elif fam == "viarecord":
        arcs = _locs("arcs", length, grid)
        for a in arcs:
            for b in arcs:
                yield {"fn": "dist", "L": length, "wrap": True, "a": a, "b": b, "via": "record"}
                if not _is_wrap(a) and not _is_wrap(b):
                    yield {"fn": "dist", "L": length, "wrap": False, "a": a, "b": b, "via": "record"}
                    yield {"fn": "connect", "L": length, "wrap": False, "locs": [a, b], "via": "record"}
                yield {"fn": "connect", "L": length, "wrap": True, "locs": [a, b], "via": "record"}
    else:
        raise ValueError(fam)


def _offsets(spec: Spec, length: int, grid: bool) -> list[int]:
    if not grid:
        return list(range(-length - 1, length + 2))
    points = _points(length, True)
    out = {0, 1, -1, length, -length, length + 1, -length - 1, length // 2, -(length // 2)}
    for _, end, _ in spec:                 # ends landing on every anchor (incl. the wrap point itself)
        for p in points:
            out.add(p - end)
            out.add(p - end + length)
    for start, _, _ in spec[:1]:
        for p in points[:4]:
            out.add(p - start)
    return sorted(o for o in out if -length - 1 <= o <= length + 1)


def _distances(spec: Spec, length: int, grid: bool) -> list[int]:
    if not grid:
        return list(range(0, length + 2))
    out = {0, 1, 2, length // 2 - 1, length // 2, length // 2 + 1, length - 1, length, length + 1}
    forward = _forward_order(spec)
    first, last = forward[0][0], forward[-1][1]
    span = _size(_own_span(spec, length))
    free = length - span
    for base in (first, length - last, last, length - first, free, free // 2, (free + 1) // 2):
        for delta in (-1, 0, 1):
            out.add(base + delta)
    return sorted(d for d in out if 0 <= d <= length + 1)


# ------------------------------------------------------------------------------------------------
# seeded sampling beyond the exhaustive bound (thorough tier only)
# ------------------------------------------------------------------------------------------------

def _random_length(rng: Any) -> int:
    choice = rng.random()
    if choice < 0.35:
        return rng.randint(11, 40)
    if choice < 0.7:
        return rng.randint(41, 2000)
    return rng.choice([10 ** 4, 10 ** 5 + 1, 10 ** 6, 10 ** 7 - 1, rng.randint(2001, 10 ** 7)])


def _random_coordinate(rng: Any, length: int, pool: list[int]) -> int:
    if pool and rng.random() < 0.5:
        return max(0, min(length, rng.choice(pool) + rng.choice((-1, 0, 0, 1))))
    if rng.random() < 0.3:
        half = length // 2
        return rng.choice([0, 1, half - 1, half, half + 1, length - 1, length])
    return rng.randint(0, length)


def _random_arc(rng: Any, length: int, pool: list[int], strand: int = 1) -> Spec:
    for _ in range(50):
        start = _random_coordinate(rng, length, pool)
        end = _random_coordinate(rng, length, pool)
        pool.extend([start, end, (start + length // 2) % length, (end + length // 2) % length])
        if start < end:
            return _oriented([[start, end]], strand)
        if 0 < end <= start < length and rng.random() < 0.6:
            return _oriented([[start, length], [0, end]], strand)
    return _oriented([[0, 1]], strand)


def _random_multi(rng: Any, length: int, pool: list[int], strand: int) -> Spec:
    count = rng.randint(2, 4)
    cuts = sorted({_random_coordinate(rng, length, pool) for _ in range(2 * count + 2)})
    parts = []
    i = 0
    while i + 1 < len(cuts) and len(parts) < count:
        parts.append([cuts[i], cuts[i + 1]])
        i += 1 if rng.random() < 0.2 else 2
    if len(parts) < 2:
        return _random_arc(rng, length, pool, strand)
    if rng.random() < 0.3 and parts[0][0] > 0 and parts[-1][1] < length:
        # rotate so that the location spans the origin
        pivot = rng.randint(1, len(parts) - 1)
        parts = parts[pivot:] + parts[:pivot]
    return _oriented(parts, strand)


def _random_cases(run: Any) -> Iterator[dict]:
    rng = run.rng
    while True:
        length = _random_length(rng)
        pool: list[int] = []
        strand = rng.choice((1, -1))
        kind = rng.random()
        if kind < 0.3:
            count = rng.randint(2, 8)
            locs = [_random_arc(rng, length, pool, rng.choice((1, 1, -1))) for _ in range(count)]
            case = {"fn": "connect", "L": length, "wrap": True, "locs": locs}
            if count > 4:
                case["orders"] = "rotations"
            yield case
            if not any(_is_wrap(s) for s in locs):
                yield {"fn": "connect", "L": length, "wrap": False, "locs": locs[:4]}
        elif kind < 0.55:
            a = _random_multi(rng, length, pool, strand) if rng.random() < 0.5 else _random_arc(rng, length, pool, strand)
            b = _random_multi(rng, length, pool, 1) if rng.random() < 0.5 else _random_arc(rng, length, pool, -1)
            yield {"fn": "pair", "L": length, "a": a, "b": b}
            yield {"fn": "dist", "L": length, "wrap": True, "a": a, "b": b}
            if not _is_wrap(a) and not _is_wrap(b):
                yield {"fn": "dist", "L": length, "wrap": False, "a": a, "b": b}
        elif kind < 0.8:
            spec = _random_multi(rng, length, pool, strand) if rng.random() < 0.4 else _random_arc(rng, length, pool, strand)
            forward = _forward_order(spec)
            free = length - _size(_own_span(spec, length))
            for distance in {0, rng.randint(0, length + 1), free // 2, (free + 1) // 2, free, forward[0][0],
                             length - forward[-1][1], forward[-1][1], max(0, length - forward[0][0] - 1)}:
                yield {"fn": "extend", "L": length, "circ": True, "loc": spec, "d": distance}
                if not _is_wrap(spec):
                    yield {"fn": "extend", "L": length, "circ": False, "loc": spec, "d": distance}
        else:
            spec = _random_multi(rng, length, pool, strand) if rng.random() < 0.5 else _random_arc(rng, length, pool, strand)
            offsets = {rng.randint(-length - 1, length + 1), length - spec[0][1], -spec[0][0], length - spec[-1][1],
                       -spec[-1][0], length // 2}
            for offset in offsets:
                yield {"fn": "offset", "L": length, "wrap": True, "loc": spec, "off": offset}
                if not _is_wrap(spec) and min(p[0] for p in spec) + offset >= 0:
                    yield {"fn": "offset", "L": length, "wrap": False, "loc": spec, "off": offset}


# ------------------------------------------------------------------------------------------------
# driver entry points
# ------------------------------------------------------------------------------------------------

def _report(run: Any, case: dict) -> None:
    try:
        outcome = evaluate(case)
    except Exception as err:  # a bug of this module, not of the code under test
        import traceback
        run.error(f"evaluator crashed on {case!r}: {err!r}\n{traceback.format_exc()}")
        return
    counted = False
    for clause, ok, nontrivial, detail in outcome:
        # the non-trivial key of a case is the same for all its clauses: register (and hash) it once
        first = nontrivial and not counted
        counted = counted or first
        run.check(_label(clause, case), ok, case, nontrivial=first, detail=detail if not ok else "",
                  key=repr(case) if first else None)
    if case["fn"] == "connect":
        run.count(max(0, 2 * len(set(itertools.permutations(range(len(case["locs"]))))) - 2)
                  if case.get("orders") != "rotations" else 4 * len(case["locs"]))


def run_shard(shard: dict, run: Any) -> None:
    import logging
    logging.disable(logging.CRITICAL)
    for unit in shard["units"]:
        if run.out_of_time():
            return
        for case in _cases_of(unit):
            _report(run, case)
    if shard.get("random"):
        import time
        stop = time.time() + shard["random"]
        for n, case in enumerate(_random_cases(run)):
            if n % 64 == 0 and (run.out_of_time() or time.time() > stop):
                break
            _report(run, case)


# ------------------------------------------------------------------------------------------------
# development-time cross-check of the two model implementations (sets vs intervals)
# ------------------------------------------------------------------------------------------------

def _selftest(max_length: int = 7) -> int:
    """Compare the interval model with the set-of-bases model on every small case; returns #checks."""
    checks = 0
    for length in range(1, max_length + 1):
        locs = _locs("single", length, False) + _locs("single3", length, False)
        for spec in locs:
            for ring in (True, False):
                for distance in range(0, length + 2):
                    assert _model_extend(spec, distance, length, ring) == _model_extend_iv(spec, distance, length, ring)
                    checks += 1
                for offset in range(-length - 1, length + 2):
                    moved = [(s + offset, e + offset) for s, e, _ in spec]
                    want = _ring(moved, length) if ring else _norm(moved)
                    assert _model_offset(spec, offset, length, ring) == want, (spec, offset, length, ring)
                    checks += 1
        for a in locs[::3]:
            for b in locs[::2]:
                for ring in (True, False):
                    assert _model_distance(a, b, length, ring) == _model_distance_iv(a, b, length, ring), (a, b, length)
                    checks += 1
        arcs = _locs("arcs", length, False)
        for a in arcs:
            for b in arcs:
                for c in arcs[::2]:
                    occupied_set = _to_set(iv for s in (a, b, c) for iv in _own_span(s, length))
                    arc_len, arc, unique = _model_shortest_arc(_from_set(occupied_set), length)
                    best = None
                    for start in range(length):
                        for size in range(1, length + 1):
                            if occupied_set <= {(start + i) % length for i in range(size)}:
                                if best is None or size < best[0]:
                                    best = (size, [start])
                                elif size == best[0]:
                                    best[1].append(start)
                                break
                    assert best is not None and best[0] == arc_len, (a, b, c, best, arc_len)
                    if arc_len < length:
                        assert unique == (len(best[1]) == 1), (a, b, c, best, unique)
                        assert any(_from_set({(s + i) % length for i in range(arc_len)}) == arc for s in best[1])
                    checks += 1
    return checks
