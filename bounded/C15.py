"""Bounded stand-in for C15 - ORF scanning finds exactly the open reading frames of the searched
sequence (antismash/common/all_orfs.py: scan_orfs, find_all_orfs and what they call).

Two families of cases, both run on the real code:

  fn == "scan"   one call of scan_orfs(seq, direction, offset, minimum_length, record_length).
                 The harness owns a record of length L (or an unbounded linear one when L is None),
                 takes the window of len(seq) bases starting at `offset` (mod L), and hands scan_orfs
                 the window itself (direction 1) or its reverse complement (direction -1), exactly as
                 find_all_orfs does.  The case stores the *scanned* string.
  fn == "find"   one call of find_all_orfs(record, area, min_length, max_overlap) on a small record
                 with a given gene layout (genes may nest, overlap, touch, cross the origin).

The oracle is written from the property statement only: a codon-class regular expression per frame
(`S[^T]*T` over the string of codon classes) gives the ORFs; positions are mapped to the record by
plain modular arithmetic on lists of bases; nothing of all_orfs.py is called in the oracle.
"""
from __future__ import annotations

import functools
import itertools
import re
from typing import Any, Iterator, Optional

START_CODONS = ("ATG", "GTG", "TTG")      # from the property statement
STOP_CODONS = ("TAA", "TAG", "TGA")

RULE = (
    "scan family: (a) every string over {A,T,G} up to the tier's length bound (quick 9, thorough 10); "
    "strings that contain an ORF are scanned on both strands at minimum_length 0 for every record length in "
    "{n, n+1, n+4} (thorough: n, n+1, n+2, n+3, n+5) with EVERY offset in [-L, L) (both the negative-offset and "
    "the past-the-end convention for a window crossing the origin) plus record_length=None with offsets 0, 1, 7, "
    "and for every minimum length in {each ORF length, each ORF length + 1} on 8 rotating windows; strings "
    "without an ORF get both strands, one rotating minimum length from {0, 3, 6, 9} on one rotating window; "
    "(b) every codon-class string over {start, stop, other}^k, k <= 7 (thorough 8), at each of the three frame "
    "shifts (prefix of 0..2 bases) with a rotating suffix of 0..2 bases, the concrete codons (all three starts and "
    "stops, near-miss codons, lower/mixed case, N and other ambiguity codes) rotating deterministically, at "
    "minimum lengths {0, each ORF length, +1} on 3 rotating windows; (c) planted ORFs of 57, 60, 63, 66 nt with "
    "minimum_length in {59, 60, 61, 63, 64} in a window that crosses the origin at every offset, both strands; "
    "thorough adds seeded random strings <= 60 nt over ACGT+IUPAC, mixed case, with planted ORFs, random "
    "offset/record length. "
    "find family: fixed ORF-dense records (60/64/65 nt, ORFs on both strands in all frames), linear and "
    "circular, whole record or an area (linear or origin-spanning); gene layouts: every single gene [s,e) of "
    "at least 3 nt, pairs of genes on a 4-nt grid (disjoint, touching, overlapping, nested, identical, equal "
    "starts/ends), areas on an 8-nt grid with single genes on a 3-nt grid and pairs on an 8-nt grid, "
    "origin-spanning areas (9 per record) with single genes, origin-spanning genes and mixtures, a gene with an "
    "inner gene ending near its end, genes shorter than twice the allowed overlap next to the origin, an "
    "origin-spanning gene plus a gene ending near the record end; max_overlap in {0,1,3,4,5,6,10}, min_length in "
    "{6,9}; thorough adds finer grids, triples and seeded random layouts of up to 5 genes. "
    "A scan case is non-trivial when the scanned string contains at least one ORF (before the length "
    "filter); a find case is non-trivial when at least one ORF is returned and at least one gene exists. "
    "Distinct = distinct case dictionaries."
)
EXHAUSTIVE = {"quick": True, "thorough": False}

# --------------------------------------------------------------------------------------------------
# independent model
# --------------------------------------------------------------------------------------------------
_COMP = str.maketrans("ACGTUNRYKMSWBDHVacgtunrykmswbdhv", "TGCAANYRMKSWVHDBtgcaanyrmkswvhdb")


def revcomp(seq: str) -> str:
    return seq.translate(_COMP)[::-1]


@functools.lru_cache(maxsize=4096)
def oracle_orfs(seq: str) -> tuple[tuple[int, int], ...]:
    """All ORFs (a, e) of `seq` (end exclusive, stop codon included), any length: per frame, the
    stretch from the first start codon after the previous in-frame stop up to the next in-frame stop."""
    upper = seq.upper()
    found = []
    for frame in range(3):
        classes = []
        for i in range(frame, len(upper) - 2, 3):
            codon = upper[i:i + 3]
            classes.append("S" if codon in START_CODONS else "T" if codon in STOP_CODONS else "x")
        for match in re.finditer(r"S[^T]*T", "".join(classes)):
            found.append((frame + 3 * match.start(), frame + 3 * match.end()))
    return tuple(found)


def is_orf(dna: str) -> bool:
    """dna is exactly one ORF: start codon, no in-frame stop before the last codon, stop codon last"""
    dna = dna.upper()
    if len(dna) < 6 or len(dna) % 3:
        return False
    codons = [dna[i:i + 3] for i in range(0, len(dna), 3)]
    return codons[0] in START_CODONS and codons[-1] in STOP_CODONS and not any(c in STOP_CODONS for c in codons[:-1])


def expected_positions(a: int, e: int, n: int, direction: int, offset: int, length: Optional[int]) -> list[int]:
    """Record positions of the ORF seq[a:e] in transcript order (first base of the start codon first)."""
    window_indices = range(a, e) if direction == 1 else range(n - 1 - a, n - 1 - e, -1)
    if length is None:
        return [offset + w for w in window_indices]
    return [(offset + w) % length for w in window_indices]


def flatten(location: Any) -> tuple[list[int], set]:
    """The bases a Biopython location reads, in the order `extract` concatenates them, and the strands
    of its parts."""
    order: list[int] = []
    strands = set()
    for part in location.parts:
        start, end = int(part.start), int(part.end)
        strands.add(part.strand)
        order.extend(range(start, end) if part.strand != -1 else range(end - 1, start - 1, -1))
    return order, strands


def build_record(seq: str, direction: int, offset: int, length: Optional[int]) -> str:
    """The record the window was cut from: window bases at (offset + k) mod L, 'N' elsewhere."""
    window = seq if direction == 1 else revcomp(seq)
    if length is None:
        return "N" * offset + window
    record = ["N"] * length
    for k, char in enumerate(window):
        record[(offset + k) % length] = char
    return "".join(record)


_BASES = {"A": "A", "C": "C", "G": "G", "T": "T", "U": "T", "R": "AG", "Y": "CT", "K": "GT", "M": "AC",
          "S": "CG", "W": "AT", "B": "CGT", "D": "AGT", "H": "ACT", "V": "ACG", "N": "ACGT"}
_AA = "FFLLSSSSYY**CC*WLLLLPPPPHHQQRRRRIIIMTTTTNNKKSSRRVVVVAAAADDEEGGGG"
_TABLE = {"".join(c): _AA[i] for i, c in enumerate(itertools.product("TCAG", repeat=3))}


def translate_codon(codon: str) -> str:
    """Standard/bacterial code; an ambiguous codon is its amino acid if all expansions agree, else X."""
    try:
        options = {_TABLE[a + b + c] for a in _BASES[codon[0]] for b in _BASES[codon[1]] for c in _BASES[codon[2]]}
    except KeyError:
        return "X"
    return options.pop() if len(options) == 1 else "X"


def translate_orf(dna: str) -> str:
    """Translation of the coding part up to (not including) the first in-frame stop, first residue M"""
    dna = dna.upper()
    residues = []
    for i in range(0, len(dna) - len(dna) % 3, 3):
        amino = translate_codon(dna[i:i + 3])
        if amino == "*":
            break
        residues.append(amino)
    if not residues:
        return ""
    return "M" + "".join(residues[1:])


# --------------------------------------------------------------------------------------------------
# scan_orfs
# --------------------------------------------------------------------------------------------------
CL_EXC = "no-unexpected-exception"
CL_ABOVE = "every-orf-above-minimum-reported"
CL_EXACT = "orf-of-exactly-minimum-length-reported"
CL_NOTHING_ELSE = "nothing-else-reported"
CL_WHOLE = "orf-covering-whole-record-off-origin-reported"
CL_EXTRACT = "extract-gives-orf"
CL_EXTRACT_REV_WRAP = "extract-gives-orf-reverse-strand-across-origin"


def _wraps(positions: list[int]) -> bool:
    """positions (read order) jump somewhere, i.e. the stretch continues across the origin"""
    return any(abs(positions[k + 1] - positions[k]) != 1 for k in range(len(positions) - 1))


def eval_scan(case: dict[str, Any]) -> list[tuple[str, bool, str]]:
    """Runs one scan case on the real code; returns (clause, ok, detail) for every applicable clause."""
    from antismash.common.all_orfs import scan_orfs  # pylint: disable=import-outside-toplevel
    from Bio.Seq import Seq  # pylint: disable=import-outside-toplevel

    seq, direction, offset, minimum, length = case["seq"], case["dir"], case["off"], case["min"], case["L"]
    n = len(seq)
    try:
        reported = scan_orfs(seq, direction, offset, minimum, length)
        flat = [flatten(loc) for loc in reported]
    except Exception as err:  # pylint: disable=broad-except
        return [(CL_EXC, False, f"{type(err).__name__}: {err}")]
    results: list[tuple[str, bool, str]] = [(CL_EXC, True, "")]

    expected = []  # (a, e, positions)
    for a, e in oracle_orfs(seq):
        if e - a >= minimum:
            expected.append((a, e, expected_positions(a, e, n, direction, offset, length)))

    # match reported locations to expected ORFs by (set of bases, strand); each side used once
    unmatched = list(range(len(reported)))
    matched: dict[int, int] = {}  # expected index -> reported index
    for index, (_, _, positions) in enumerate(expected):
        want = frozenset(positions)
        for rep in unmatched:
            order, strands = flat[rep]
            if strands == {direction} and len(order) == len(want) and frozenset(order) == want:
                matched[index] = rep
                unmatched.remove(rep)
                break

    # an ORF covering the whole circular record in a window that does not start at the origin is
    # judged under its own clause (its start and end coincide modulo the record length)
    whole = [i for i, (a, e, _) in enumerate(expected)
             if length is not None and e - a == length and offset % length != 0]
    exact = [i for i, (a, e, _) in enumerate(expected) if e - a == minimum]
    missing_above = [(a, e) for i, (a, e, _) in enumerate(expected)
                     if i not in matched and i not in exact and i not in whole]
    missing_exact = [(expected[i][0], expected[i][1]) for i in exact if i not in matched]
    missing_whole = [(expected[i][0], expected[i][1]) for i in whole if i not in matched and i not in exact]
    # the wrongly placed report of a whole-record ORF is that one failure, not also "something else"
    for _ in missing_whole:
        for rep in unmatched:
            if len(flat[rep][0]) in (0, length):
                unmatched.remove(rep)
                break
    shown = "" if not (missing_above or missing_exact or missing_whole or unmatched) else f"; reported {reported}"
    results.append((CL_ABOVE, not missing_above, f"ORFs (seq coordinates) not reported: {missing_above}{shown}"))
    if exact:
        results.append((CL_EXACT, not missing_exact,
                        f"ORFs of length == minimum_length={minimum} not reported: {missing_exact}{shown}"))
    if [i for i in whole if i not in exact]:
        results.append((CL_WHOLE, not missing_whole,
                        f"ORF covering the whole record not reported with its bases: {missing_whole}{shown}"))
    results.append((CL_NOTHING_ELSE, not unmatched,
                    "" if not unmatched else
                    f"reported locations that are no ORF of the window on strand {direction}: "
                    f"{[str(reported[i]) for i in unmatched]}; expected {[(a, e) for a, e, _ in expected]}"))

    record = Seq(build_record(seq, direction, offset, length))
    bad_plain, bad_wrap = [], []
    seen_plain = seen_wrap = False
    for index, rep in matched.items():
        a, e, positions = expected[index]
        try:
            extracted = str(reported[rep].extract(record))
        except Exception as err:  # pylint: disable=broad-except
            extracted = f"<{type(err).__name__}: {err}>"
        good = extracted.upper() == seq[a:e].upper() and flat[rep][0] == positions
        if direction == -1 and _wraps(positions):
            seen_wrap = True
            if not good:
                bad_wrap.append(f"{reported[rep]} extracts {extracted!r}, ORF is {seq[a:e]!r}")
        else:
            seen_plain = True
            if not good:
                bad_plain.append(f"{reported[rep]} extracts {extracted!r}, ORF is {seq[a:e]!r}")
    if seen_plain:
        results.append((CL_EXTRACT, not bad_plain, "; ".join(bad_plain)))
    if seen_wrap:
        results.append((CL_EXTRACT_REV_WRAP, not bad_wrap, "; ".join(bad_wrap)))
    return results


# --------------------------------------------------------------------------------------------------
# find_all_orfs
# --------------------------------------------------------------------------------------------------
CL_F_EXC = "find-no-unexpected-exception"
CL_F_EXC_SHORT = "find-no-unexpected-exception/origin-spanning-area-and-gene-shorter-than-twice-the-overlap"
CL_F_GAP = "found-orf-overlaps-no-gene-by-more-than-allowed"
CL_F_GAP_HIDDEN = "found-orf-overlaps-no-gene-by-more-than-allowed/gene-hidden-from-area-lookup"
CL_F_GAP_INNER = "found-orf-overlaps-no-gene-by-more-than-allowed/gene-with-inner-gene-ending-near-its-end"
CL_F_AREA = "found-orf-inside-searched-area"
CL_F_TRANSLATION = "found-orf-translation-matches-location"
CL_F_TRANSLATION_REV_WRAP = "found-orf-translation-matches-location/reverse-strand-across-origin"
CL_F_IS_ORF = "found-feature-is-an-orf-of-minimum-length"
CL_F_IS_ORF_REV_WRAP = "found-feature-is-an-orf-of-minimum-length/reverse-strand-across-origin"


def _bases(parts: list[list[int]]) -> set[int]:
    out: set[int] = set()
    for start, end in parts:
        out.update(range(start, end))
    return out


def longest_shared_run(own: set[int], other: set[int], size: int, circular: bool) -> int:
    """Longest stretch of consecutive record positions that belong to both sets (on a circular record the
    last and the first position are consecutive).  An ORF lies in a gap 'up to the allowed overlap' when it
    reaches into a bordering gene by at most that many bases at a boundary; a gene that borders the gap on
    both sides (around the origin) is reached into twice."""
    shared = own & other
    if not shared:
        return 0
    if len(shared) == size:
        return size
    best = 0
    for position in shared:
        before = position - 1
        if before < 0 and circular:
            before = size - 1
        if before in shared:
            continue  # not the first base of its run
        run, current = 0, position
        while current in shared and run < size:
            run += 1
            current += 1
            if current == size and circular:
                current = 0
        best = max(best, run)
    return best


def _sort_key(gene: dict[str, Any], size: int) -> tuple[int, int]:
    """Order of the genes in the record: by start then length; an origin-spanning gene counts as starting
    before 0 by the length of its stretch before the origin."""
    parts = gene["parts"]
    if len(parts) > 1:
        return (parts[0][0] - size, sum(end - start for start, end in parts))
    return (parts[0][0], parts[0][1] - parts[0][0])


def genes_hidden_from_area_lookup(case: dict[str, Any]) -> set[int]:
    """Indices of genes A that share a base with a part P of the searched area while another gene B,
    sharing no base with P, sorts after A and before P (B starts before P: typically B lies inside A
    and ends before the area starts, or A spans the origin and B is any gene ahead of the area's last
    stretch).  This is the class of genes the record's by-location lookup does not return."""
    hidden: set[int] = set()
    if not case.get("area"):
        return hidden
    size = len(case["rec"])
    for p_start, p_end in case["area"]:
        part = set(range(p_start, p_end))
        for i, first in enumerate(case["genes"]):
            if not _bases(first["parts"]) & part:
                continue
            for j, second in enumerate(case["genes"]):
                if i == j or _bases(second["parts"]) & part:
                    continue
                if _sort_key(first, size) < _sort_key(second, size) < (p_start, p_end - p_start):
                    hidden.add(i)
    return hidden


def _envelope(gene: dict[str, Any]) -> tuple[int, int]:
    """lowest and highest coordinate of a gene (for an origin-spanning gene: 0 and the record length)"""
    return min(start for start, _ in gene["parts"]), max(end for _, end in gene["parts"])


def genes_with_inner_gene_near_end(case: dict[str, Any]) -> set[int]:
    """Indices of genes A whose span from lowest to highest coordinate [a_start, a_end) contains the end of
    another gene B (also taken from lowest to highest coordinate) that starts no earlier and ends fewer
    than 2 * max_overlap bases before a_end."""
    outer: set[int] = set()
    overlap = case["ov"]
    for i, first in enumerate(case["genes"]):
        a_start, a_end = _envelope(first)
        for j, second in enumerate(case["genes"]):
            if i == j:
                continue
            b_start, b_end = _envelope(second)
            if a_start <= b_start and a_end - 2 * overlap < b_end < a_end:
                outer.add(i)
    return outer


def has_gene_shorter_than_twice_overlap(case: dict[str, Any]) -> bool:
    return any(_envelope(gene)[1] - _envelope(gene)[0] < 2 * case["ov"] for gene in case["genes"])


def _find_exception_clause(case: dict[str, Any]) -> str:
    if case.get("area") and len(case["area"]) > 1:
        if has_gene_shorter_than_twice_overlap(case):
            return CL_F_EXC_SHORT
    return CL_F_EXC


def _make_location(parts: list[list[int]], strand: int) -> Any:
    from antismash.common.secmet.locations import CompoundLocation, FeatureLocation  # pylint: disable=import-outside-toplevel
    built = [FeatureLocation(start, end, strand) for start, end in parts]
    return built[0] if len(built) == 1 else CompoundLocation(built)


def build_find_input(case: dict[str, Any]) -> tuple[Any, Any]:
    """(record, area) for a find case"""
    from antismash.common.secmet.test.helpers import DummyCDS, DummyRecord, DummySubRegion  # pylint: disable=import-outside-toplevel
    record = DummyRecord(seq=case["rec"], circular=bool(case["circ"]))
    for index, gene in enumerate(case["genes"]):
        parts = gene["parts"]
        if gene["strand"] == -1 and len(parts) > 1:
            parts = parts[::-1]  # biological order for the reverse strand
        record.add_cds_feature(DummyCDS(location=_make_location(parts, gene["strand"]), locus_tag=f"g{index}"))
    area = None
    if case.get("area"):
        area = DummySubRegion(location=_make_location(case["area"], 1))
    return record, area


def eval_find(case: dict[str, Any]) -> tuple[list[tuple[str, bool, str]], int]:
    """Runs one find case; returns the clause results and the number of ORFs returned."""
    from antismash.common.all_orfs import find_all_orfs  # pylint: disable=import-outside-toplevel

    sequence = case["rec"]
    try:
        record, area = build_find_input(case)
    except Exception as err:  # pylint: disable=broad-except
        raise RuntimeError(f"harness could not build {case}: {type(err).__name__}: {err}") from err
    try:
        features = find_all_orfs(record, area, min_length=case["min"], max_overlap=case["ov"])
        described = [(str(f.location), flatten(f.location), str(f.translation)) for f in features]
    except Exception as err:  # pylint: disable=broad-except
        return [(_find_exception_clause(case), False, f"{type(err).__name__}: {err}")], 0
    results: list[tuple[str, bool, str]] = [(_find_exception_clause(case), True, "")]

    hidden = genes_hidden_from_area_lookup(case)
    inner = genes_with_inner_gene_near_end(case)
    gap_clause = {}
    for index in range(len(case["genes"])):
        gap_clause[index] = CL_F_GAP_HIDDEN if index in hidden else CL_F_GAP_INNER if index in inner else CL_F_GAP
    gene_bases = [_bases(gene["parts"]) for gene in case["genes"]]
    area_bases = _bases(case["area"]) if case.get("area") else None
    bad_gap: dict[str, list[str]] = {clause: [] for clause in gap_clause.values()}
    bad: dict[str, list[str]] = {}
    seen: set[str] = set()
    bad_area = []
    for text, (order, strands), translation in described:
        own = set(order)
        for index, bases in enumerate(gene_bases):
            shared = longest_shared_run(own, bases, len(sequence), bool(case["circ"]))
            if shared > case["ov"]:
                bad_gap[gap_clause[index]].append(
                    f"{text} reaches {shared} bases into gene {case['genes'][index]['parts']} (allowed {case['ov']})")
        if area_bases is not None and not own <= area_bases:
            bad_area.append(f"{text} leaves the area {case['area']}")
        strand = -1 if strands == {-1} else 1
        in_range = all(0 <= p < len(sequence) for p in order)
        picked = "".join(sequence[p] for p in order) if in_range else ""
        dna = picked if strand == 1 else picked.translate(_COMP)
        rev_wrap = strand == -1 and _wraps(order)
        clause = CL_F_TRANSLATION_REV_WRAP if rev_wrap else CL_F_TRANSLATION
        seen.add(clause)
        # the first residue may be the forced M or the literal translation of the start codon
        plain = translate_codon(dna[:3].upper()) + translate_orf(dna)[1:] if len(dna) >= 3 and translate_orf(dna) else ""
        if not in_range or translation not in (translate_orf(dna), plain):
            bad.setdefault(clause, []).append(
                f"{text} reads {dna!r} = {translate_orf(dna)!r}, feature says {translation!r}")
        clause = CL_F_IS_ORF_REV_WRAP if rev_wrap else CL_F_IS_ORF
        seen.add(clause)
        if not (in_range and len(strands) == 1 and is_orf(dna) and len(dna) >= case["min"] and len(own) == len(order)):
            bad.setdefault(clause, []).append(f"{text} reads {dna!r}")
    for clause in (CL_F_GAP, CL_F_GAP_HIDDEN, CL_F_GAP_INNER):
        if clause in bad_gap:
            results.append((clause, not bad_gap[clause], "; ".join(bad_gap[clause][:4])))
    if area_bases is not None:
        results.append((CL_F_AREA, not bad_area, "; ".join(bad_area[:4])))
    for clause in (CL_F_TRANSLATION, CL_F_TRANSLATION_REV_WRAP, CL_F_IS_ORF, CL_F_IS_ORF_REV_WRAP):
        if clause in seen:
            results.append((clause, clause not in bad, "; ".join(bad.get(clause, [])[:4])))
    return results, len(described)


# --------------------------------------------------------------------------------------------------
# replay
# --------------------------------------------------------------------------------------------------
def replay(case: dict[str, Any]) -> list[str]:
    if case.get("fn") == "find":
        results, _ = eval_find(case)
    else:
        results = eval_scan(case)
    return [f"{clause}: {detail}" for clause, ok, detail in results if not ok]


# --------------------------------------------------------------------------------------------------
# case generators (deterministic; the seed only matters for the thorough tier's random families)
# --------------------------------------------------------------------------------------------------
def _windows(n: int, tier: str) -> list[tuple[Optional[int], int]]:
    """(record_length, offset) for a scanned string of n bases: no record (linear coordinates), and
    records of n .. n+k bases with every offset in [-L, L)."""
    extras = (0, 1, 4) if tier == "quick" else (0, 1, 2, 3, 5)
    combos: list[tuple[Optional[int], int]] = [(None, 0), (None, 1), (None, 7)]
    for extra in extras:
        length = n + extra
        if length > 0:
            combos.extend((length, offset) for offset in range(-length, length))
    return combos


def _rotating(combos: list, index: int, count: int) -> list:
    step = len(combos) // count + 1
    return [combos[(index * 5 + j * step) % len(combos)] for j in range(count)]


def _scan_case(seq: str, direction: int, offset: int, minimum: int, length: Optional[int]) -> dict[str, Any]:
    return {"fn": "scan", "seq": seq, "dir": direction, "off": offset, "min": minimum, "L": length}


def _cases_for_string(seq: str, index: int, tier: str, sweep: bool, spot: int) -> Iterator[dict[str, Any]]:
    """All scan cases derived from one scanned string."""
    lengths = sorted({e - a for a, e in oracle_orfs(seq)})
    combos = _windows(len(seq), tier)
    if not lengths:
        length, offset = combos[(index * 7) % len(combos)]
        for direction in (1, -1):
            yield _scan_case(seq, direction, offset, (0, 3, 6, 9)[(index + direction) % 4], length)
        return
    if sweep:
        for length, offset in combos:
            for direction in (1, -1):
                yield _scan_case(seq, direction, offset, 0, length)
    minimums = sorted({m for ell in lengths for m in (ell, ell + 1)} | (set() if sweep else {0}))
    for k, minimum in enumerate(minimums):
        for length, offset in _rotating(combos, index + k, spot):
            for direction in (1, -1):
                yield _scan_case(seq, direction, offset, minimum, length)


def gen_s1(tier: str, part: int, of: int) -> Iterator[dict[str, Any]]:
    """every string over {A,T,G} up to the bound"""
    bound = 9 if tier == "quick" else 10
    index = 0
    for n in range(0, bound + 1):
        for letters in itertools.product("ATG", repeat=n):
            index += 1
            if index % of != part:
                continue
            yield from _cases_for_string("".join(letters), index, tier, sweep=True, spot=8)


_REP_START = ("ATG", "GTG", "TTG", "atg", "gTg", "TtG")
_REP_STOP = ("TAA", "TAG", "TGA", "taa", "tAg", "TGa")
_REP_OTHER = ("AAA", "CTC", "NNN", "ATC", "TGG", "TAC", "ATA", "CTG", "GTA", "TAT", "ccc", "nnn", "AGT", "TTA",
              "GGT", "TCA", "ATT", "ATN", "NTG", "TAN", "TNA", "KTG", "TAY", "tgc", "AAT", "GAT", "TGT", "TTT")
_PREFIX = ("", "C", "A", "T", "G", "CA", "AT", "TG", "GT", "TT", "cc", "N")
_SUFFIX = ("", "G", "T", "A", "TA", "TG", "AT", "c", "NN")


def _codon_string(classes: tuple[str, ...], index: int) -> str:
    codons = []
    for j, cls in enumerate(classes):
        reps = _REP_START if cls == "S" else _REP_STOP if cls == "T" else _REP_OTHER
        codons.append(reps[(index + 3 * j + j * j) % len(reps)])
    return "".join(codons)


def gen_s2(tier: str, part: int, of: int) -> Iterator[dict[str, Any]]:
    """every codon-class string with rotating concrete codons, case, ambiguity codes, frame shifts"""
    bound = 7 if tier == "quick" else 8
    index = 0
    for k in range(1, bound + 1):
        for classes in itertools.product("STx", repeat=k):
            for shift in range(3):
                index += 1
                if index % of != part:
                    continue
                prefixes = [p for p in _PREFIX if len(p) == shift]
                prefix = prefixes[index % len(prefixes)]
                suffix = _SUFFIX[(index // 3) % len(_SUFFIX)]
                seq = prefix + _codon_string(classes, index) + suffix
                yield from _cases_for_string(seq, index, tier, sweep=False, spot=3)


def gen_s3(tier: str, part: int, of: int) -> Iterator[dict[str, Any]]:
    """planted ORFs around the default minimum length of 60 in windows crossing the origin at every phase"""
    index = 0
    for ell in (57, 60, 63, 66):
        body = "".join(_REP_OTHER[(ell + j) % 10] for j in range((ell - 6) // 3)).upper()
        seq = "CC" + _REP_START[ell % 3] + body + _REP_STOP[ell % 3] + "C"
        assert sorted(e - a for a, e in oracle_orfs(seq))[-1] == ell
        length = len(seq) + 3
        for minimum in (59, 60, 61, 63, 64):
            for offset in range(-length, length):
                for direction in (1, -1):
                    index += 1
                    if index % of == part:
                        yield _scan_case(seq, direction, offset, minimum, length)


_IUPAC = "ACGTACGTACGTACGTNRYKMSWBDHV"


def gen_random_scan(run: Any) -> Iterator[dict[str, Any]]:
    """seeded random strings <= 60 nt with planted ORFs, mixed case, ambiguity codes"""
    rng = run.rng
    while not run.out_of_time():
        n = rng.randint(6, 60)
        letters = [rng.choice(_IUPAC if rng.random() < 0.3 else "ACGT") for _ in range(n)]
        for _ in range(rng.randint(0, 4)):
            ell = 3 * rng.randint(2, 8)
            if ell > n:
                continue
            a = rng.randint(0, n - ell)
            letters[a:a + 3] = rng.choice(START_CODONS)
            letters[a + ell - 3:a + ell] = rng.choice(STOP_CODONS)
        seq = "".join(c.lower() if rng.random() < 0.1 else c for c in letters)
        lengths = sorted({e - a for a, e in oracle_orfs(seq)})
        minimum = rng.choice([0] + lengths + [ell + 1 for ell in lengths] + [rng.randint(0, 30)])
        if rng.random() < 0.2:
            length, offset = None, rng.randint(0, 500)
        else:
            length = n + rng.choice((0, 0, 1, 2, 3, rng.randint(0, 50)))
            offset = rng.randint(-length, length - 1)
        yield _scan_case(seq, rng.choice((1, -1)), offset, minimum, length)


# ---- find family ----------------------------------------------------------------------------------
def _records() -> dict[str, str]:
    """ORF-dense records built from short ORFs on both strands, separated so that all frames occur."""
    rc = revcomp
    rec_a = ("ATGAAATAA" + rc("GTGCCATAG") + "C" + "TTGTGA" + rc("ATGTAA") + "CC" + "ATGGCATTTTGA"
             + rc("TTGAAACCCTAA") + "C" + "GTGTAG")
    rec_b = ("C" + rc("ATGTTTTAA") + "ATGTGA" + "CC" + rc("TTGCACTAG") + "GTGAAACCCTAG" + "C"
             + rc("ATGGGGAAATGA") + "TTGTAA" + "CC")
    rec_c = (rc("TTGAAATAG") + "CC" + "ATGCCCGGGAAATGA" + rc("GTGTGA") + "C" + "TTGCATTAA"
             + rc("ATGCCCTTTTAA") + "GTGCCCTAG" + "CA")
    return {
        "A": rec_a,                              # 64 nt
        "B": rec_b,                              # 60 nt
        "A4": rec_a[4:] + rec_a[:4],             # forward ORF across the origin
        "B5": rec_b[5:] + rec_b[:5],             # reverse ORF across the origin
        "C3": rec_c[3:] + rec_c[:3],             # 65 nt (odd), long reverse ORF across the origin
    }


def _gene(start: int, end: int, strand: int = 1) -> dict[str, Any]:
    return {"parts": [[start, end]], "strand": strand}


def _origin_gene(start: int, end: int, length: int, strand: int = 1) -> dict[str, Any]:
    return {"parts": [[start, length], [0, end]], "strand": strand}


def _find_case(rec: str, circ: bool, genes: list, area: Any, minimum: int, overlap: int) -> dict[str, Any]:
    return {"fn": "find", "rec": rec, "circ": circ, "genes": genes, "area": area, "min": minimum, "ov": overlap}


def _intervals(length: int, step: int, shift: int = 0, shortest: int = 3) -> list[tuple[int, int]]:
    points = sorted({min(length, p) for p in range(shift, length + step, step)} | {0, length})
    return [(s, e) for s in points for e in points if e - s >= shortest]


def gen_find(tier: str) -> Iterator[dict[str, Any]]:
    """all find cases of the tier, in a fixed order"""
    recs = _records()
    thorough = tier != "quick"
    settings = ((0, 6), (1, 6), (4, 6), (10, 6), (4, 9)) if not thorough else \
        ((0, 6), (1, 6), (4, 6), (10, 6), (0, 9), (1, 9), (4, 9), (10, 9))
    # FA: whole record, every single gene [s, e)
    for name, circ in (("A", False),) + ((("B", True),) if thorough else ()):
        rec = recs[name]
        size = len(rec)
        for overlap, minimum in settings:
            yield _find_case(rec, circ, [], None, minimum, overlap)
        k = 0
        for start in range(size):
            for end in range(start + 3, size + 1):
                k += 1
                for number, (overlap, minimum) in enumerate(settings):
                    if thorough or (number + k) % 5 < 3:
                        yield _find_case(rec, circ, [_gene(start, end, 1 if k % 2 else -1)], None, minimum, overlap)
    # FA2: whole record, pairs of genes on a grid (disjoint, touching, overlapping, nested, identical)
    for name, circ, step in (("B", False, 4),) + ((("A", True, 3),) if thorough else ()):
        rec = recs[name]
        spans = _intervals(len(rec), step)
        k = 0
        for i, first in enumerate(spans):
            for second in spans[i:]:
                k += 1
                genes = [_gene(*first, 1 if k % 2 else -1), _gene(*second, 1 if k % 3 else -1)]
                if first == second:  # the record refuses two genes with one location and strand
                    genes[1]["strand"] = -genes[0]["strand"]
                for overlap in (0, 3, 6) if thorough else ((3, 0, 6), (3,), (3, 0), (3, 6), (3, 0), (3,))[k % 6]:
                    yield _find_case(rec, circ, genes, None, 6, overlap)
    # FB: linear area, single genes and pairs
    rec = recs["A"]
    areas = _intervals(len(rec), 8, shortest=8)
    singles = _intervals(len(rec), 3, shift=1)
    pairs = _intervals(len(rec), 8, shift=2)
    for number, (a_start, a_end) in enumerate(areas):
        area = [[a_start, a_end]]
        for overlap in (0, 3):
            yield _find_case(rec, False, [], area, 6, overlap)
        for k, (start, end) in enumerate(singles):
            for overlap in (0, 3) if thorough else ((0, 3)[(k + number) % 2],):
                yield _find_case(rec, False, [_gene(start, end, 1 if k % 2 else -1)], area, 6, overlap)
    for a_start, a_end in areas[::2] if thorough else areas[::6]:
        area = [[a_start, a_end]]
        for i, first in enumerate(pairs):
            for second in pairs[i:]:
                for overlap in (0, 3):
                    yield _find_case(rec, False, [_gene(*first), _gene(*second, -1)], area, 6, overlap)
    # FC: circular record, origin-spanning area; no gene, single genes, origin-spanning genes, mixtures
    for number, name in enumerate(("A4", "B5", "C3")):
        rec = recs[name]
        size = len(rec)
        tails = (30, 21, 12, 5, 1) if thorough else ((30, 12, 4), (21, 9, 1), (26, 15, 5))[number]
        heads = (1, 6, 13, 22, 30) if thorough else ((1, 9, 30), (6, 13, 22), (3, 10, 19))[number]
        spans = _intervals(size, 3 if thorough else 4, shift=2)
        over = [(size - t, h) for t in (1, 4, 9, 15) for h in (1, 3, 8, 16)]
        for tail in tails:
            for head in heads:
                area = [[size - tail, size], [0, head]]
                for overlap in (0, 3):
                    yield _find_case(rec, True, [], area, 6, overlap)
                    for k, (start, end) in enumerate(spans):
                        if thorough or (k + overlap) % 2:
                            yield _find_case(rec, True, [_gene(start, end, 1 if k % 4 < 2 else -1)], area, 6, overlap)
                    for k, (start, end) in enumerate(over):
                        strand = 1 if k % 2 else -1
                        yield _find_case(rec, True, [_origin_gene(start, end, size, strand)], area, 6, overlap)
                        for other in spans[k::5 if thorough else 7]:
                            yield _find_case(rec, True, [_origin_gene(start, end, size, strand), _gene(*other)],
                                             area, 6, overlap)
    # FD: origin-spanning area, a gene with an inner gene ending near its end, large allowed overlap
    for name in ("A4", "B5", "C3") if thorough else ("A4", "B5"):
        rec = recs[name]
        size = len(rec)
        area = [[size - 30, size], [0, 25]]
        for o_start in (size - 29, size - 20):
            for o_end in (size - 8, size - 2, size):
                for i_start in (o_start + 2, o_start + 8):
                    for back in (1, 4, 9, 15):
                        i_end = o_end - back
                        if i_end - i_start < 3:
                            continue
                        for overlap in (6, 10):
                            genes = [_gene(o_start, o_end), _gene(i_start, i_end, -1)]
                            yield _find_case(rec, True, genes, area, 6, overlap)
                            yield _find_case(rec, True, genes + [_gene(3, 9)], area, 6, overlap)
    # FE: origin-spanning area and genes shorter than twice the allowed overlap next to the origin
    for name in ("A4", "B5", "C3") if thorough else ("A4", "C3"):
        rec = recs[name]
        size = len(rec)
        area = [[size - 28, size], [0, 22]]
        for overlap in (3, 5, 10):
            for t_start, t_end in ((size - 6, size - 2), (size - 4, size), (size - 9, size - 4), (2, 6), (0, 3), (4, 12)):
                for other in ((size - 25, size - 12), (size - 20, size - 15), (8, 18), (size - 27, size - 7)):
                    yield _find_case(rec, True, [_gene(t_start, t_end), _gene(*other, -1)], area, 6, overlap)
                    yield _find_case(rec, True, [_gene(t_start, t_end), _gene(*other, -1), _gene(size - 3, size, -1)],
                                     area, 6, overlap)
    # FG: two origin-spanning genes (one inside the other) and an area that only the outer one reaches
    for name in ("A4", "B5", "C3"):
        rec = recs[name]
        size = len(rec)
        for o_start, o_end in ((size - 17, 12), (size - 20, 7), (size - 8, 19)):
            for i_start, i_end in ((size - 2, 5), (size - 1, 2), (size - 5, 6)):
                if i_start < o_start or i_end > o_end:
                    continue
                for area in ([[7, size - 9]], [[o_end - 5, o_start + 4]], [[size - 30, size], [0, 25]]):
                    for overlap in (0, 1):
                        genes = [_origin_gene(o_start, o_end, size, 1), _origin_gene(i_start, i_end, size, -1)]
                        yield _find_case(rec, True, genes, area, 6, overlap)
    # FF: whole record, origin-spanning gene and a gene ending near the record end
    for name in ("A4", "B5"):
        rec = recs[name]
        size = len(rec)
        for o_start, o_end in ((size - 18, 1), (size - 9, 3), (size - 30, 8)):
            for back in (1, 4, 9, 15):
                for span in (6, 12, 25):
                    for overlap in (0, 3, 10):
                        genes = [_origin_gene(o_start, o_end, size, -1), _gene(size - back - span, size - back)]
                        yield _find_case(rec, True, genes, None, 6, overlap)
    if thorough:
        # triples on a coarse grid, whole record
        rec = recs["B"]
        spans = _intervals(len(rec), 6)
        for i, first in enumerate(spans):
            for j, second in enumerate(spans[i:], i):
                for third in spans[j:]:
                    if first == second or second == third:
                        continue
                    yield _find_case(rec, False, [_gene(*first), _gene(*second, -1), _gene(*third)], None, 6, 3)


def gen_random_find(run: Any) -> Iterator[dict[str, Any]]:
    rng = run.rng
    recs = _records()
    names = sorted(recs)
    while not run.out_of_time():
        rec = recs[rng.choice(names)]
        size = len(rec)
        circ = rng.random() < 0.6
        genes = []
        for _ in range(rng.randint(0, 5)):
            if circ and rng.random() < 0.15:
                genes.append(_origin_gene(size - rng.randint(1, 20), rng.randint(1, 20), size, rng.choice((1, -1))))
            else:
                start = rng.randint(0, size - 3)
                genes.append(_gene(start, rng.randint(start + 3, size), rng.choice((1, -1))))
        genes = [g for i, g in enumerate(genes) if g not in genes[:i]]
        area = None
        roll = rng.random()
        if roll < 0.3:
            start = rng.randint(0, size - 8)
            area = [[start, rng.randint(start + 8, size)]]
        elif roll < 0.7 and circ:
            area = [[size - rng.randint(1, 30), size], [0, rng.randint(1, 30)]]
        yield _find_case(rec, circ, genes, area, rng.choice((6, 6, 9, 12)), rng.choice((0, 1, 3, 5, 10)))


# --------------------------------------------------------------------------------------------------
# driver interface
# --------------------------------------------------------------------------------------------------
def _warm_up() -> None:
    """Import the code under test once in the parent, so that the forked workers inherit it."""
    import antismash.common.all_orfs  # noqa: F401  pylint: disable=import-outside-toplevel,unused-import
    import antismash.common.secmet.test.helpers  # noqa: F401  pylint: disable=import-outside-toplevel,unused-import


def shards(tier: str, seed: int) -> list:  # pylint: disable=unused-argument
    _warm_up()
    out: list[dict[str, Any]] = []
    out += [{"fam": "s1", "part": i, "of": 16} for i in range(16)]
    out += [{"fam": "s2", "part": i, "of": 8} for i in range(8)]
    out += [{"fam": "s3", "part": i, "of": 2} for i in range(2)]
    out += [{"fam": "find", "part": i, "of": 24} for i in range(24)]
    if tier != "quick":
        out += [{"fam": "random-scan", "part": i, "of": 7} for i in range(7)]
        out += [{"fam": "random-find", "part": i, "of": 7} for i in range(7)]
    return out


def _report(run: Any, case: dict[str, Any]) -> None:
    if case["fn"] == "find":
        try:
            results, count = eval_find(case)
        except RuntimeError as err:
            run.error(str(err))
            return
        nontrivial = bool(count and case["genes"])
    else:
        results = eval_scan(case)
        nontrivial = bool(oracle_orfs(case["seq"]))
    for clause, ok, detail in results:
        run.check(clause, ok, case, nontrivial=nontrivial, detail=detail)


def run_shard(shard: dict[str, Any], run: Any) -> None:
    fam, part, of = shard["fam"], shard["part"], shard["of"]
    cases: Iterator[dict[str, Any]]
    if fam == "s1":
        cases = gen_s1(run.tier, part, of)
    elif fam == "s2":
        cases = gen_s2(run.tier, part, of)
    elif fam == "s3":
        cases = gen_s3(run.tier, part, of)
    elif fam == "find":
        cases = (case for i, case in enumerate(gen_find(run.tier)) if i % of == part)
    elif fam == "random-scan":
        cases = gen_random_scan(run)
    elif fam == "random-find":
        cases = gen_random_find(run)
    else:
        run.error(f"unknown shard {shard}")
        return
    exhaustive = not fam.startswith("random")
    for count, case in enumerate(cases):
        if not exhaustive and count >= (150000 if fam == "random-scan" else 20000):
            break
        if exhaustive and count % 512 == 0 and run.out_of_time():
            break
        _report(run, case)


FINDING_CLASSES: dict[str, Any] = {
    "C15-F1": lambda clause, case: clause == CL_EXACT,
    "C15-F2": lambda clause, case: clause in (CL_EXTRACT_REV_WRAP, CL_F_IS_ORF_REV_WRAP, CL_F_TRANSLATION_REV_WRAP),
    "C15-F3": lambda clause, case: clause == CL_WHOLE,
    "C15-F4": lambda clause, case: clause == CL_F_GAP_INNER,
    "C15-F5": lambda clause, case: clause == CL_F_GAP_HIDDEN,
    "C15-F6": lambda clause, case: clause == CL_F_EXC_SHORT,
}
