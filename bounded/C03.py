"""Bounded stand-in for property C03: protoclusters are the maximal cutoff-chains of a rule's
anchoring genes (real antismash detection, driven with dynamic profiles only, on tiny records).

Input model, bridge and oracle: bounded/_c03_model.py; clauses and generators: bounded/_c03_check.py.
Cutoffs are >= 1 (with cutoff 0 "separated by less than the cutoff" is unsatisfiable and the
statement's own clauses contradict each other for overlapping genes).
"""
from __future__ import annotations

import itertools
from typing import Any, Dict, List

from . import _c03_check as chk
from . import _c03_known as known

RULE = ("cases = gene layouts built from gap sequences (overlap, nested / same start / same end, touching, "
        "cutoff-1, cutoff, cutoff+1 for each cutoff of the ruleset, far) of 2-4 (thorough: 5) genes on both "
        "strands x lead/tail offsets around the neighbourhoods on linear records, and x origin positions (at a "
        "gene start, one base inside a gene, at a gene end, mid-gap; genes spanning the origin) on circular ones "
        "x hit patterns over profiles a,b,c x rulesets of 2-4 rules built by the real parser (mixed cutoffs and "
        "neighbourhoods, SUPERIORS, EXTENDERS, single / and / or / cds / minimum / not conditions). quick "
        "enumerates the listed families completely; thorough enumerates wider menus and more origins and then "
        "samples seeded random layouts, cutoffs 1-9 and neighbourhoods 1-8. Oracle = set-of-bases model "
        "(components of 'separated by less than the cutoff', complement of the largest gap, widening by the "
        "neighbourhood). A clause name carries a [suffix] when the input of the check lies in the input class "
        "of a known finding (decided from the input only). non-trivial = some rule has two anchoring genes whose "
        "separation is within cutoff+-1 or that are chained across the origin; distinct = distinct "
        "(record, hits, ruleset).")
EXHAUSTIVE = {"quick": True, "thorough": False}

C1, C2 = 3, 6      # the two cutoffs used by the menus (bases)
RANDOM_PER_SHARD = 4000


def _rule(name: str, cut: int, nbh: int, cond: str, sup: Any = None, ext: Any = None) -> Dict[str, Any]:
    rule: Dict[str, Any] = {"n": name, "cut": cut, "nb": nbh, "cond": cond}
    if sup:
        rule["sup"] = list(sup)
    if ext:
        rule["ext"] = ext
    return rule


FAR = 30
BOTH = [-2, 0, C1 - 1, C1, C1 + 1, C2 - 1, C2, C2 + 1, C2 + 3, FAR]
SMALL = [0, C1 - 1, C1, C2, FAR]
MID = [-2, 0, C1 - 1, C1, C2 - 1, C2, FAR]
EDGE = [0, 2, 3, 5, 6]

SINGLE = [[_rule("r0", C1, 2, "a"), _rule("r1", C2, 5, "a")]]
PAIRS = [[_rule("r0", C2, 2, "a and b"), _rule("r1", C1, 5, "a and b"), _rule("r2", C2, 5, "a and b")]]
SUPS = [
    [_rule("r0", C2, 2, "a"), _rule("r1", C1, 5, "b", sup=["r0"])],
    [_rule("r0", C1, 5, "a"), _rule("r1", C2, 2, "b", sup=["r0"]), _rule("r2", C1, 2, "a or b", sup=["r0"])],
]
# an inferior rule with two superiors, the first of which (by name) finds nothing in the record or only far away
MULTISUP = [
    [_rule("r0", C1, 2, "c"), _rule("r1", C2, 2, "a"), _rule("r2", C1, 5, "b", sup=["r0", "r1"])],
    [_rule("r0", C2, 2, "a"), _rule("r1", C1, 2, "c"), _rule("r2", C1, 5, "b", sup=["r0", "r1"])],
]
EXTS = [
    [_rule("r0", C1, 2, "a", ext="c"), _rule("r1", C2, 5, "a", ext="cds(b or c)")],
]
CONDS = [
    [_rule("r0", C1, 2, "a or b"), _rule("r1", C2, 5, "minimum(2,[a,b])"),
     _rule("r2", C1, 5, "a and not c"), _rule("r3", C2, 2, "cds(a and b)")],
    # a negated cds(): only the reach of the neighbour scan inside CDSCondition decides (seed C03-11)
    [_rule("r0", C1, 2, "c and not cds(a and b)"), _rule("r1", C2, 5, "c and not cds(a and b)")],
]


def families(tier: str) -> Dict[str, Dict[str, Any]]:
    """ the enumerated families (quick: as listed; thorough: wider menus, more origins) """
    wide = tier != "quick"
    nine = [-2, 0, C1 - 1, C1, C1 + 1, C2 - 1, C2, C2 + 1, FAR]
    six = [-2, 0, C1 - 1, C1, C2, FAR]
    four = [0, C1, C2, FAR]
    mixed = [h for h in itertools.product(("a", "b", "ab", "c"), repeat=3)
             if "a" in "".join(h) and "b" in "".join(h)]
    fams: Dict[str, Dict[str, Any]] = {
        # one profile, every gene anchors: chain strictness, hull, neighbourhood, wrap
        "chain2": {"lens": (3, 4), "gaps": BOTH + [14], "hits": [("a", "a")], "rulesets": SINGLE,
                   "leads": EDGE, "tails": EDGE, "cuts": 1},
        "chain3": {"lens": (3, 4, 5), "gaps": nine, "hits": [("a", "a", "a")], "rulesets": SINGLE,
                   "leads": [0, 2, 5], "tails": [0, 3, 6]},
        "chainx3": {"lens": (3, 4, 5), "gaps": SMALL, "hits": [("a", "c", "a"), ("a", "", "a")], "rulesets": SINGLE,
                    "leads": [0, 2], "tails": [0, 3]},
        "chain4": {"lens": (3, 4, 3, 5), "gaps": SMALL, "hits": [("a", "a", "a", "a")], "rulesets": SINGLE,
                   "leads": [0, 2], "tails": [0, 3]},
        # nested / same start / same end genes
        "nest3": {"lens": (7, 3, 4), "gaps": [[-7, -6, -3], BOTH, BOTH], "hits": [("a", "a", "a"), ("a", "", "a")],
                  "rulesets": SINGLE, "leads": [0, 2], "tails": [0, 5], "cuts": -1},
        # two-gene rule, three rules of mixed cutoffs (the per-cutoff cache)
        "pair2": {"lens": (3, 4), "gaps": BOTH + [14], "hits": [("a", "b"), ("ab", "a")], "rulesets": PAIRS,
                  "leads": [0, 3], "tails": [0, 6], "cuts": 1},
        "pair3": {"lens": (3, 4, 3), "gaps": MID, "hits": [("a", "b", "a"), ("a", "b", "b"), ("a", "", "b"),
                                                            ("b", "a", "c")],
                  "rulesets": PAIRS, "leads": [0, 3], "tails": [0, 6], "cuts": -1},
        # superiors
        "sup3": {"lens": (3, 4, 3), "gaps": six, "hits": [("ab", "b", "a"), ("b", "a", "b"), ("a", "b", "a"),
                                                           ("b", "ab", "b"), ("ab", "a", "ab")],
                 "rulesets": SUPS, "leads": [0, 5], "tails": [0, 2], "cuts": -1},
        "sup4": {"lens": (3, 3, 4, 3), "gaps": four, "hits": [("a", "b", "b", "a"), ("b", "a", "a", "b")],
                 "rulesets": SUPS, "leads": [0], "tails": [2], "cuts": -1},
        "sup2x": {"lens": (3, 4, 3), "gaps": [0, C1 - 1, C2, FAR],
                  "hits": [("ab", "b", "a"), ("b", "ab", "b"), ("ab", "b", "c"), ("b", "ab", "c")],
                  "rulesets": MULTISUP, "leads": [0], "tails": [2], "cuts": -1},
        # extenders
        "ext3": {"lens": (3, 4, 3), "gaps": [-2, 0, C1 - 1, C1, C1 + 1, C2, FAR],
                 "hits": [("c", "a", "c"), ("a", "c", "c"), ("a", "", "c"), ("a", "b", "c")],
                 "rulesets": EXTS, "leads": [0, 2], "tails": [0, 5], "cuts": -1},
        # the other condition kinds
        "cond3": {"lens": (3, 4, 3), "gaps": SMALL, "hits": mixed[::5], "rulesets": CONDS,
                  "leads": [0], "tails": [3], "cuts": -1},
    }
    if wide:
        for fam in fams.values():
            fam["cuts"] = 1
        fams["chain3"]["gaps"] = BOTH
        fams["chain4"]["gaps"] = MID
        fams["pair3"]["gaps"] = BOTH
        fams["sup3"]["gaps"] = MID
        fams["sup4"]["gaps"] = SMALL
        fams["ext3"]["gaps"] = BOTH
        fams["cond3"]["hits"] = mixed
        fams["nest3"]["gaps"] = [[-7, -6, -5, -3, -2], BOTH, BOTH]
        fams["chain5"] = {"lens": (3, 4, 3, 5, 3), "gaps": SMALL, "hits": [("a",) * 5], "rulesets": SINGLE,
                          "leads": [0, 2], "tails": [0, 3], "cuts": 0}
    return fams


# relative cost of the families (number of parts each is split into)
PARTS = {"chain2": 2, "chain3": 6, "chainx3": 2, "chain4": 8, "nest3": 5, "pair2": 2, "pair3": 6, "sup3": 6,
         "sup4": 6, "sup2x": 3, "ext3": 6, "cond3": 5, "chain5": 8}


def shards(tier: str, seed: int) -> list:
    out = []
    scale = 1 if tier == "quick" else 4
    for name in families(tier):
        parts = PARTS.get(name, 4) * scale
        for part in range(parts):
            out.append({"kind": "family", "fam": name, "part": part, "of": parts})
    if tier != "quick":
        for part in range(16):
            out.append({"kind": "random", "part": part})
    return out


def _report(case: Dict[str, Any], run: Any) -> None:
    try:
        results = chk.evaluate(case)
        nontrivial = chk.is_nontrivial(case)
        ctx = known.Context(case)
        labelled = [(known.label(clause, ctx, where), holds, detail, where)
                    for clause, holds, detail, where in results]
    except Exception as err:  # pylint: disable=broad-except
        run.error(f"harness failure on {case!r}: {type(err).__name__}: {err}")
        return
    for clause, holds, detail, where in labelled:
        shown = dict(case, at=where) if where and not holds else case
        run.check(clause, holds, shown, nontrivial=nontrivial, detail=detail, key=case)


def random_case(rng: Any) -> Dict[str, Any]:
    """ a seeded random case beyond the enumerated menus """
    count = rng.choice([2, 3, 3, 4, 4, 5, 6])
    lens = [rng.choice([3, 3, 4, 5, 7]) for _ in range(count)]
    kind = rng.choice(["single", "pairs", "sups", "exts", "conds"])
    rulesets = {"single": SINGLE, "pairs": PAIRS, "sups": SUPS, "exts": EXTS, "conds": CONDS}[kind]
    rules = [dict(r) for r in rng.choice(rulesets)]
    for rule in rules:
        rule["cut"] = rng.choice([1, 2, 3, 4, 6, 9])
        rule["nb"] = rng.choice([1, 2, 3, 5, 8])
    roomy = rng.random() < 0.7     # most sampled rings are much longer than the distances
    cuts = sorted({r["cut"] for r in rules})
    menu = [-3, -2, -1, 0, 1, 12] + [c + d for c in cuts for d in (-1, 0, 1) if c + d >= 0]
    gaps = [rng.choice(menu) for _ in range(count)]
    if roomy:
        gaps[rng.randrange(count)] = rng.choice([25, 30, 40, 60])
    letters = {"single": ["a", "a", "a", "c", ""], "pairs": ["a", "b", "ab", "", "c"], "sups": ["a", "b", "ab", ""],
               "exts": ["a", "c", "b", "", "c"], "conds": ["a", "b", "ab", "c", "ac", ""]}[kind]
    hits = [rng.choice(letters) for _ in range(count)]
    strands = [rng.choice([1, -1]) for _ in range(count)]
    if rng.random() < 0.6:
        laid = chk.ring_layout(lens, gaps)
        if laid is None:
            return {}
        length, spans = laid
        base = chk.make_case(length, True, spans, strands, hits, rules)
        base["genes"] = [[s % length, s % length + (e - s), st] for s, e, st in base["genes"]]
        case = chk.rotate_case(base, rng.randrange(length))
    else:
        laid = chk.line_layout(lens, gaps[:-1], rng.choice([0, 1, 2, 3, 5, 8]), rng.choice([0, 1, 2, 3, 5, 8]))
        if laid is None:
            return {}
        length, spans = laid
        case = chk.make_case(length, False, spans, strands, hits, rules)
    return case if chk.valid_case(case) else {}


def run_shard(shard: Dict[str, Any], run: Any) -> None:
    if shard["kind"] == "family":
        fam = families(run.tier)[shard["fam"]]
        done = 0
        for index, case in enumerate(chk.family_cases(fam)):
            if index % shard["of"] != shard["part"]:
                continue
            _report(case, run)
            done += 1
            if done % 50 == 0 and run.out_of_time():
                return
        return
    done = 0
    while done < RANDOM_PER_SHARD and not run.out_of_time():
        case = random_case(run.rng)
        if case:
            _report(case, run)
            done += 1


def replay(case: Dict[str, Any]) -> List[str]:
    """ re-evaluate every clause on one stored case (the "at" marker of a stored failure is ignored) """
    plain = {k: v for k, v in case.items() if k != "at"}
    ctx = known.Context(plain)
    return [f"{known.label(clause, ctx, where)}: {detail}"
            for clause, holds, detail, where in chk.evaluate(plain) if not holds]


# ----------------------------------------------------------------------------------------------
#  known findings: narrow input classes per clause, see bounded/_c03_known.py
# ----------------------------------------------------------------------------------------------

FINDING_CLASSES: Dict[str, Any] = {fid: known.classifier(fid) for fid in known.FINDING_IDS}
