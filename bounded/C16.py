"""Bounded stand-in for C16 - sanitised record identifiers are unique, short and filesystem-safe
(antismash/common/record_processing.py: pre_process_sequences / fix_record_name_id /
generate_unique_id; antismash/common/secmet/record.py: Record.add_cds_feature).

Family "records": a list of record ids (optionally names) and the allow_long_headers setting is
turned into real secmet Records (tiny sequence, one CDS each) and run through the REAL
pre_process_sequences with a do-nothing gene finder on one cpu; the clauses are evaluated on
record.id / record.name / record.original_id afterwards.
Family "cds": a sequence of CDS features (names differing only in illegal characters, with and
without locus tag, same / overlapping / disjoint locations) is added to a real Record through
Record.add_cds_feature; afterwards the gene names must be pairwise distinct unless the record was
rejected with SecmetInvalidInputError.

The oracle is written from the statement: distinctness is `len(set(ids)) == len(ids)`, the character
set and the length limit are constants of this file.  The model of the pinned algorithm further
down is used ONLY to delimit the class of the known finding C16-F1, never to decide a clause.
"""
from __future__ import annotations

import itertools
import logging
import re
import zlib
from typing import Any, Callable, Dict, Iterator, List, Optional, Sequence, Tuple

RULE = (
    "records: every list of record ids from the enumerated pools (quick: all single ids of length <= 4 "
    "over {a,b,:,_,0} and every illegal character at 3 positions; all ordered pairs of ids of length <= 3; "
    "all ordered triples over 24 curated short ids and over all ids of length <= 2 of {a,:,_,0}; all "
    "4-lists over 5 ids around a/a_0/a_1; all ordered pairs over 47 and triples over 24 long/special ids "
    "(17-30 chars sharing 7/12/16-char prefixes, versioned accessions, contig/scaffold/c-number patterns "
    "incl. 99999/100000/123456, literal shortened and de-duplicated forms, illegal characters before/after "
    "positions 7 and 12), both allow_long_headers settings where the length matters; names differing "
    "from ids). cds: all sequences of <= 3 CDS features over 8 name kinds x 4 locations. thorough: wider "
    "pools, preceded by 6000 seeded random lists of 2-6 ids per shard (duplicates, ids differing in one illegal "
    "character, ids sharing 16 characters, random names). Non-trivial: some rewrite is required (duplicate ids, "
    "an id/name over 16 characters while long headers are off, an illegal character) or two ids coincide "
    "after stripping or in their first 7/12 characters; cds: at least two features sharing a sanitised "
    "name or a location. Distinct = distinct case."
)
EXHAUSTIVE = {"quick": True, "thorough": False}
N_SHARDS = 32

# characters unusable in file names / GenBank headers (documented set; constant of the oracle)
ILLEGAL = set('''!"#$%&()*+,:;=>?@[]^`'{|}/ ''')
MAX_LEN = 16


def strip_illegal(text: str) -> str:
    return "".join(ch for ch in text if ch not in ILLEGAL)


# ----------------------------------------------------------------------------------------------
# pools
# ----------------------------------------------------------------------------------------------
def _strings(alphabet: str, max_len: int) -> List[str]:
    out = []
    for length in range(1, max_len + 1):
        out.extend("".join(chars) for chars in itertools.product(alphabet, repeat=length))
    return out


CURATED_SHORT = [
    "a", "b", "ab", "a:b", "a:", ":a", "a;", "a b", "a_0", "a_1", "a:_0", "a_0:", "a_:0", "a__0", "a_00",
    "a_0_0", "a:_1", "b_0", "ab_0", "a:b_0", "a_", "_0", "0", "a:b:",
    # several DIFFERENT illegal characters in one id (every kind has to go, not only the last one found)
    "a:b;", "(a)", "a(b):", "a|b c",
]
QUAD_POOL = ["a", "a_0", "a_1", "a:", "a:_0"]

BASE17 = "abcdefghijklmnopq"
LONG_POOL = [
    BASE17,                              # 17 characters
    "abcdefghijklmnopr",                 # same first 16
    "abcdefghijklXnopq",                 # same first 12
    "abcdefgXijklmnopq",                 # same first 7
    "abcdefghijklmnop",                  # exactly 16: must stay
    "abcdefghijklmnopqrstuvwxyz0123",    # 30 characters
    "ab:defghijklmnopq",                 # illegal character within the first 7
    "abcdefgh:jklmnopq",                 # illegal character within 8..12
    "abcdefghijklmno:q",                 # illegal character after 12
    "abcdefghijklmnop:",                 # 17 characters, 16 once stripped
    "c00001_abcdefg..", "c00002_abcdefg..", "c00003_abcdefg..",   # literal shortened forms per position
    "c00001_abdefg..", "c00002_abdefg..",                          # ... of the stripped id
    "c00001_ab:defg..", "c00002_ab:defg..",                        # ... before stripping (16 characters)
    "abcdefghijkl_0", "abcdefghijkl_1",                            # literal fallback names
    "abdefghijkl_0", "ab:defghijkl_0",
    "NZ_ABCD01000079.1", "NZ_ABCD01000079.2", "NZ_ABCD01000079",   # versioned accession and its stem
    "NZ_AB:D01000079.1", "NZ_ABD01000079",
    "NZ_ABCDE01000079.1",                # stem of exactly 16
    "NZ_ABCDEF01000079.1",               # stem of 17
    "NZ_ABCD010000.7.1",                 # two dots
    "NZ_ABCD0100007.12",                 # two-digit version
    # the number patterns end in \b: the number has to be followed by a non-word character or the end
    "abcdefghij_contig12", "abcdefghik_contig12", "c00012_abcdefg..", "contig12.abcdefghij",
    "abcdefghi_scaffold7", "abcdefghijkl_scaf7", "c00007_abcdefg..",
    "abcdefghijklm c12",                 # ' c12' pattern, blank is illegal
    "abcdefg_contig99999", "abcdefg_contig100000", "abcdef_contig123456", "c99999_abcdefg..",
    "contig12_abcdefghij",               # no word boundary after the number: position is used
    "contig12",
    "a:b", "ab", "a",
    "plasmid(pSV1)", "gi|1234|seq:7", "ab:def;hijklmnopq", "ab(defgh)jklm:nopq",   # two or more kinds of illegal characters
]
LONG_TRIPLE_POOL = [
    BASE17, "abcdefghijklmnopr", "abcdefgXijklmnopq", "ab:defghijklmnopq", "abcdefgh:jklmnopq",
    "c00001_abcdefg..", "c00002_abcdefg..", "c00003_abcdefg..", "c00002_abdefg..", "c00002_ab:defg..",
    "abcdefghijkl_0", "abcdefghijkl_1", "abdefghijkl_0",
    "NZ_ABCD01000079.1", "NZ_ABCD01000079.2", "NZ_ABCD01000079", "NZ_AB:D01000079.1", "NZ_ABD01000079",
    "abcdefghij_contig12", "abcdefghik_contig12", "c00012_abcdefg..", "abcdefghij_c_0",
    "abcdefghijklm c12", "ab",
]
NAME_IDS = ["ab", "a:b", BASE17, "abcdefghij_contig12"]
NAME_NAMES = ["ab", "a:b", ":", BASE17, "abcdefghijklmnop", "ab:defghijklmnopq", "abcdefghijklmnop:",
              "abcdefghij_contig12", "abcdef_contig123456", "NZ_ABCD01000079.1", "a b/c", "(a):b", "x|y;z w"]

# ---- cds family -------------------------------------------------------------------------------
CDS_LOCATIONS = [(0, 9, 1), (3, 12, 1), (30, 39, 1), (0, 9, -1)]


def _loc_text(loc: Sequence[int]) -> str:
    return f"[{loc[0]}:{loc[1]}]({'+' if loc[2] == 1 else '-'})"


def _crc_name(tag: str, loc: Sequence[int]) -> str:
    """the name a splice variant `tag` at `loc` is given (locus_tag + '_' + crc32 of the location text)"""
    return f"{tag}_{zlib.crc32(_loc_text(loc).encode('utf-8')):x}"


CDS_NAMES_QUICK = [
    {"locus_tag": "g1"}, {"locus_tag": "g:1"}, {"locus_tag": "g_1"}, {"gene": "g1"}, {"gene": "g 1"},
    {"protein_id": "g1"}, {"locus_tag": "h"}, {"locus_tag": _crc_name("g1", CDS_LOCATIONS[1])},
]
CDS_NAMES_THOROUGH = CDS_NAMES_QUICK + [
    {"locus_tag": "g1", "gene": "h"}, {"gene": "g1", "protein_id": "h"}, {"locus_tag": "g/1"},
    {"locus_tag": _crc_name("g_1", CDS_LOCATIONS[1])}, {"locus_tag": _crc_name("g1", CDS_LOCATIONS[2])},
]


# ----------------------------------------------------------------------------------------------
# case streams
# ----------------------------------------------------------------------------------------------
def _rec(ids: Sequence[str], long_ok: bool, names: Optional[Sequence[str]] = None) -> Dict[str, Any]:
    case: Dict[str, Any] = {"fam": "records", "ids": list(ids), "long": bool(long_ok)}
    if names is not None:
        case["names"] = list(names)
    return case


def _families(tier: str) -> List[Tuple[str, Any]]:
    quick = tier == "quick"
    fams: List[Tuple[str, Any]] = []
    singles = _strings("ab:_0", 4 if quick else 5)
    for char in sorted(ILLEGAL):
        singles += [f"x{char}y", f"{char}xy", f"xy{char}", f"{char}{char}x"]
    fams.append(("lists-both", (singles, 1)))
    fams.append(("lists-short", (_strings("ab:_0", 3), 2)))
    fams.append(("lists-both", (_strings("a:_0", 2), 2)))
    fams.append(("lists-short", (CURATED_SHORT, 3)))
    fams.append(("lists-short", (_strings("a:_0", 2), 3)))
    fams.append(("lists-short", (QUAD_POOL, 4)))
    fams.append(("lists-both", (LONG_POOL, 2)))
    fams.append(("lists-short", (LONG_TRIPLE_POOL, 3)))
    fams.append(("lists-long", (LONG_TRIPLE_POOL[:12], 3)))
    fams.append(("names", None))
    fams.append(("cds", (CDS_NAMES_QUICK if quick else CDS_NAMES_THOROUGH, 3)))
    if not quick:
        fams.append(("lists-short", (_strings("a:_0", 3), 3)))
        fams.append(("lists-short", (LONG_POOL, 3)))
        fams.append(("lists-short", (QUAD_POOL + ["a_2", "a:_1"], 5)))
    return fams


def exhaustive_cases(tier: str, k: int = 0, n: int = 1) -> Iterator[Dict[str, Any]]:
    """shard k of n takes every n-th base tuple of every family"""
    for kind, spec in _families(tier):
        if kind.startswith("lists-"):
            pool, size = spec
            for ids in itertools.islice(itertools.product(pool, repeat=size), k, None, n):
                if kind in ("lists-short", "lists-both"):
                    yield _rec(ids, False)
                if kind in ("lists-long", "lists-both"):
                    yield _rec(ids, True)
        elif kind == "names":
            combos = itertools.product(NAME_IDS, NAME_NAMES, (False, True))
            for rid, name, long_ok in itertools.islice(combos, k, None, n):
                yield _rec([rid], long_ok, [name])
                yield _rec([rid, "zz"], long_ok, [name, name])
        elif kind == "cds":
            names, size = spec
            specs = [dict(name, loc=list(loc)) for name in names for loc in CDS_LOCATIONS]
            for length in range(1, size + 1):
                for feats in itertools.islice(itertools.product(specs, repeat=length), k, None, n):
                    yield {"fam": "cds", "features": [dict(f) for f in feats]}


_RANDOM_PARTS = ["a", "b", "ab", ":", "_0", "_1", ".1", "contig12", "contig7", "scaffold3", " c5", "abcdefg",
                 "abcdefghijkl", "hijklmnop", "X", "NZ_ABCD", "0100", "/", " ", "_", "c00001_", "..", "99999",
                 "100000"]


def random_case(rng) -> Dict[str, Any]:
    """thorough only"""
    def rand_id() -> str:
        if rng.random() < 0.35:
            return rng.choice(LONG_POOL + CURATED_SHORT)
        return "".join(rng.choice(_RANDOM_PARTS) for _ in range(rng.randint(1, 5)))[:40] or "a"
    count = rng.randint(2, 6)
    ids = [rand_id() for _ in range(count)]
    for i in range(1, count):
        roll = rng.random()
        if roll < 0.15:
            ids[i] = ids[rng.randrange(i)]                     # duplicate
        elif roll < 0.3:
            other = ids[rng.randrange(i)]
            pos = rng.randint(0, len(other))
            ids[i] = other[:pos] + rng.choice(":; /") + other[pos:]   # differs in an illegal character only
        elif roll < 0.4:
            ids[i] = ids[rng.randrange(i)][:16] + rng.choice(["x", "yz", ".1"])
    names = None
    if rng.random() < 0.2:
        names = [rand_id() for _ in range(count)]
    return _rec(ids, rng.random() < 0.3, names)


# ----------------------------------------------------------------------------------------------
# evaluation on the real code
# ----------------------------------------------------------------------------------------------
_SETUP: Dict[str, Any] = {}


class _DummyGenefinding:
    """stands in for the gene finding module: never finds anything"""
    @staticmethod
    def get_arguments():
        from antismash import config
        args = config.args.ModuleArgs("genefinding", "genefinding")
        args.add_option("gff3", default="", type=str, help="dummy", dest="gff3")
        args.add_option("tool", default="none", type=str, help="dummy", dest="tool")
        return args

    @staticmethod
    def run_on_record(_record, _options) -> None:
        return None


def _setup() -> Dict[str, Any]:
    if _SETUP:
        return _SETUP
    from antismash import config
    from antismash.common import record_processing
    from antismash.common.errors import AntismashInputError
    from antismash.common.secmet import Record
    from antismash.common.secmet.errors import SecmetInvalidInputError
    from antismash.common.secmet.features import CDSFeature
    from antismash.common.secmet.locations import FeatureLocation
    from Bio.Seq import Seq
    _SETUP.update(config=config, rp=record_processing, AntismashInputError=AntismashInputError,
                  Record=Record, SecmetInvalidInputError=SecmetInvalidInputError, CDSFeature=CDSFeature,
                  FeatureLocation=FeatureLocation, Seq=Seq, genefinding=_DummyGenefinding())
    return _SETUP


def _options(env: Dict[str, Any], long_ok: bool):
    config = env["config"]
    if "options" not in env:   # once per process: building the parser dominates the cost of a case
        env["options"] = config.build_config(["--cpus", "1"], isolated=True, modules=[env["genefinding"]])
    options = env["options"]
    config.update_config({"triggered_limit": False, "minlength": 0, "limit": -1, "limit_to_record": "",
                          "allow_long_headers": bool(long_ok), "reuse_results": None,
                          "skip_sanitisation": False, "taxon": "bacteria"})
    return options


class _Verdicts:
    def __init__(self) -> None:
        self.seen: Dict[str, Optional[str]] = {}

    def note(self, clause: str, ok: bool, detail: str = "") -> None:
        if clause not in self.seen:
            self.seen[clause] = None
        if not ok and self.seen[clause] is None:
            self.seen[clause] = detail or "violated"


def run_records(case: Dict[str, Any]):
    """-> ("ok", [(id, name, original_id), ...]) or ("raised", exception)"""
    env = _setup()
    ids = case["ids"]
    names = case.get("names") or ids
    records = []
    for rid, name in zip(ids, names):
        record = env["Record"](env["Seq"]("ATGAAACCCGGGTTTTAG"), id=rid, name=name)
        record.add_cds_feature(env["CDSFeature"](env["FeatureLocation"](0, 18, 1), translation="MKPGF",
                                                 locus_tag="only"))
        records.append(record)
    previous_disable = logging.root.manager.disable
    logging.disable(logging.CRITICAL)
    try:
        options = _options(env, case["long"])
        try:
            result = env["rp"].pre_process_sequences(records, options, env["genefinding"])
        except Exception as err:  # pylint: disable=broad-except
            return "raised", err
        return "ok", [(rec.id, rec.name, rec.original_id) for rec in result]
    finally:
        logging.disable(previous_disable)


def evaluate_records(case: Dict[str, Any]) -> Dict[str, Optional[str]]:
    verdicts = _Verdicts()
    ids = case["ids"]
    names = case.get("names") or ids
    long_ok = case["long"]
    status, payload = run_records(case)
    if status == "raised":
        env = _setup()
        # the only rejection the sanitisation is entitled to: an identifier with no usable character
        allowed = isinstance(payload, env["AntismashInputError"]) and any(not strip_illegal(rid) for rid in ids)
        verdicts.note("no-unexpected-exception", allowed,
                      f"pre_process_sequences raised {type(payload).__name__}: {payload}")
        return verdicts.seen
    verdicts.note("no-unexpected-exception", True)
    out = payload
    out_ids = [rec[0] for rec in out]
    verdicts.note("records-kept-in-order", len(out) == len(ids), f"{len(ids)} records in, {len(out)} out")
    if len(out) != len(ids):
        return verdicts.seen
    duplicates = sorted({rid for rid in out_ids if out_ids.count(rid) > 1})
    verdicts.note("ids-pairwise-distinct", not duplicates, f"ids {ids} became {out_ids}: {duplicates} repeated")
    bad = [rid for rid in out_ids if set(rid) & ILLEGAL]
    verdicts.note("id-no-illegal-characters", not bad, f"ids {ids} became {out_ids}")
    bad = [rid for rid in out_ids if not rid]
    verdicts.note("id-not-empty", not bad, f"ids {ids} became {out_ids}")
    too_long = [rid for rid in out_ids if len(rid) > MAX_LEN]
    verdicts.note("id-at-most-16-unless-long-allowed", long_ok or not too_long,
                  f"ids {ids} became {out_ids} with long headers off")
    out_names = [rec[1] for rec in out]
    bad = [name for name in out_names if set(name) & ILLEGAL]
    verdicts.note("name-no-illegal-characters", not bad, f"names {list(names)} became {out_names}")
    too_long = [name for name in out_names if len(name) > MAX_LEN]
    verdicts.note("name-at-most-16-unless-long-allowed", long_ok or not too_long,
                  f"names {list(names)} became {out_names} with long headers off")
    forgotten = [(old, new, orig) for old, (new, _, orig) in zip(ids, out) if new != old and orig != old]
    verdicts.note("changed-id-remembers-original", not forgotten,
                  f"(input id, final id, original_id) = {forgotten}")
    return verdicts.seen


def evaluate_cds(case: Dict[str, Any]) -> Dict[str, Optional[str]]:
    env = _setup()
    verdicts = _Verdicts()
    record = env["Record"](env["Seq"]("ATGAAACCC" * 10), id="rec")
    added = []
    previous_disable = logging.root.manager.disable
    logging.disable(logging.CRITICAL)
    try:
        for spec in case["features"]:
            start, end, strand = spec["loc"]
            try:
                feature = env["CDSFeature"](env["FeatureLocation"](start, end, strand), translation="MKP",
                                            locus_tag=spec.get("locus_tag"), gene=spec.get("gene"),
                                            protein_id=spec.get("protein_id"))
            except Exception as err:  # pylint: disable=broad-except
                verdicts.note("gene-ids-unique-or-record-rejected", False,
                              f"building CDS {spec} raised {type(err).__name__}: {err}")
                return verdicts.seen
            try:
                record.add_cds_feature(feature)
            except env["SecmetInvalidInputError"]:
                verdicts.note("gene-ids-unique-or-record-rejected", True)   # rejected: allowed
                return verdicts.seen
            except Exception as err:  # pylint: disable=broad-except
                verdicts.note("gene-ids-unique-or-record-rejected", False,
                              f"adding CDS {spec} after {[f.get_name() for f in added]} raised "
                              f"{type(err).__name__}: {err} (neither made unique nor rejected as invalid input)")
                return verdicts.seen
            added.append(feature)
            present = list(record.get_cds_features())
            names = [cds.get_name() for cds in present]
            problems = []
            if len(set(names)) != len(names):
                problems.append(f"names {names} not distinct")
            if len(present) != len(added) or any(all(f is not p for p in present) for f in added):
                problems.append(f"{len(added)} features added, record holds {names}")
            else:
                for cds in present:
                    try:
                        found = record.get_cds_by_name(cds.get_name())
                    except KeyError:
                        found = None
                    if found is not cds:
                        problems.append(f"name {cds.get_name()} does not lead back to its feature")
            verdicts.note("gene-ids-unique-or-record-rejected", not problems, "; ".join(problems))
            if problems:
                return verdicts.seen
    finally:
        logging.disable(previous_disable)
    return verdicts.seen


def evaluate(case: Dict[str, Any]) -> Dict[str, Optional[str]]:
    if case["fam"] == "records":
        return evaluate_records(case)
    if case["fam"] == "cds":
        return evaluate_cds(case)
    raise ValueError(f"unknown family {case['fam']}")


def _nontrivial(case: Dict[str, Any]) -> bool:
    if case["fam"] == "cds":
        feats = case["features"]
        keys = [strip_name(f) for f in feats]
        locs = [tuple(f["loc"]) for f in feats]
        return len(set(keys)) < len(keys) or len(set(locs)) < len(locs)
    ids = case["ids"]
    names = case.get("names") or ids
    if len(set(ids)) < len(ids):
        return True
    if any(set(text) & ILLEGAL for text in list(ids) + list(names)):
        return True
    if not case["long"] and any(len(text) > MAX_LEN for text in list(ids) + list(names)):
        return True
    for cut in (7, 12):
        heads = [rid[:cut] for rid in ids if len(rid) > cut]
        if len(set(heads)) < len(heads):
            return True
    return False


def strip_name(spec: Dict[str, Any]) -> str:
    """name of a CDS spec with every illegal character (and white space) replaced, for the rule only"""
    raw = spec.get("locus_tag") or spec.get("gene") or spec.get("protein_id") or ""
    return "".join("_" if (ch in ILLEGAL or ch.isspace()) else ch for ch in raw)


def _report(case: Dict[str, Any], run) -> None:
    try:
        verdicts = evaluate(case)
    except Exception as err:  # pylint: disable=broad-except
        import traceback
        run.error(f"harness failure on {case!r}: {err!r}\n{traceback.format_exc()}")
        return
    nontrivial = _nontrivial(case)
    first = True
    for clause, failure in verdicts.items():
        name = clause if failure is None else _bucket(clause, case)
        run.check(name, failure is None, case, nontrivial=nontrivial and first, detail=failure or "")
        first = False


# ----------------------------------------------------------------------------------------------
# driver interface
# ----------------------------------------------------------------------------------------------
def shards(tier: str, seed: int) -> list:
    _setup()  # import antismash once in the parent; forked workers inherit the modules
    return [{"tier": tier, "k": k, "n": N_SHARDS} for k in range(N_SHARDS)]


RANDOM_PER_SHARD = 6000


def run_shard(shard, run) -> None:
    tier, k, n = shard["tier"], shard["k"], shard["n"]
    if tier != "quick":
        # the seeded part first: it must not be the victim of a truncated exhaustive part
        for count in range(RANDOM_PER_SHARD):
            if count % 128 == 0 and run.out_of_time():
                return
            _report(random_case(run.rng), run)
    for index, case in enumerate(exhaustive_cases(tier, k, n)):
        if index % 256 == 0 and run.out_of_time():
            return
        _report(case, run)


def replay(case) -> list:
    verdicts = evaluate(case)
    return [f"{clause}: {failure}" for clause, failure in verdicts.items() if failure is not None]


# ----------------------------------------------------------------------------------------------
# known findings
# ----------------------------------------------------------------------------------------------
_NUMBER_PATTERNS = (r"onti?g?(\d+)\b", r"caff?o?l?d?(\d+)\b", r"\bc(\d+)\b")


def _parsed_number(text: str) -> Optional[int]:
    """the contig number the shortening would take from the text (first matching pattern), if any"""
    for pattern in _NUMBER_PATTERNS:
        match = re.search(pattern, text)
        if match:
            return int(match.group(1))
    return None


def _pinned_unique(prefix: str, taken: set, max_length: int = -1) -> str:
    counter = 0
    while f"{prefix}_{counter}" in taken:
        counter += 1
    name = f"{prefix}_{counter}"
    if 0 < max_length < len(name):
        raise RuntimeError("no unique id")
    return name


def pinned_model(ids: Sequence[str], long_ok: bool) -> Tuple[List[str], List[str]]:
    """The algorithm of the pinned tree (de-duplicate, shorten against the set of taken ids, THEN strip
    illegal characters) -> (ids before stripping, final ids).  Only used to delimit finding C16-F1."""
    ids = list(ids)
    taken = set(ids)
    if len(taken) < len(ids):
        taken = set()
        for i, rid in enumerate(ids):
            if rid in taken:
                ids[i] = _pinned_unique(rid, taken)
            taken.add(ids[i])
    before = []
    for index, rid in enumerate(ids):
        if len(rid) > MAX_LEN and not long_ok:
            stem = rid.partition(".")[0]
            if rid[-2] == "." and rid.count(".") == 1 and len(stem) <= MAX_LEN and stem not in taken:
                rid = stem
            else:
                number = _parsed_number(rid)
                short = f"c{(index + 1 if number is None else number):05d}_{rid[:7]}.."
                rid = short if short not in taken else _pinned_unique(rid[:12], taken, MAX_LEN)
            taken.add(rid)
        before.append(rid)
    return before, [strip_illegal(rid) for rid in before]


def _f1_strip_after_bookkeeping(clause: str, case) -> bool:
    """ids that are distinct while the taken-set is consulted and coincide once the illegal characters
    are removed afterwards"""
    if clause != "ids-pairwise-distinct" or case.get("fam") != "records":
        return False
    try:
        before, final = pinned_model(case["ids"], case["long"])
    except RuntimeError:
        return False
    if len(set(before)) != len(before):
        return False
    return any(final[i] == final[j] and (set(before[i]) | set(before[j])) & ILLEGAL
               for i in range(len(final)) for j in range(i + 1, len(final)))


def _deduplicated(ids: Sequence[str]) -> List[str]:
    """ids after the documented de-duplication step (a repeated id gets the first free _N suffix)"""
    ids = list(ids)
    if len(set(ids)) == len(ids):
        return ids
    taken: set = set()
    for i, rid in enumerate(ids):
        if rid in taken:
            ids[i] = _pinned_unique(rid, taken)
        taken.add(ids[i])
    return ids


def _f2_contig_number_too_wide(clause: str, case) -> bool:
    """long headers off and an id (as it stands after de-duplication) resp. name longer than 16 characters
    carries a contig/scaffold/c number of six or more digits"""
    if case.get("fam") != "records" or case["long"]:
        return False
    if clause == "id-at-most-16-unless-long-allowed":
        texts = _deduplicated(case["ids"])
    elif clause == "name-at-most-16-unless-long-allowed":
        texts = case.get("names") or case["ids"]
    else:
        return False
    return any(len(text) > MAX_LEN and (_parsed_number(text) or 0) >= 100000 for text in texts)


def _f3_splice_variant_name_taken(clause: str, case) -> bool:
    """a CDS whose locus tag is literally <tag>_<crc32 of a location> of a later overlapping same-tag CDS"""
    if clause != "gene-ids-unique-or-record-rejected" or case.get("fam") != "cds":
        return False
    feats = case["features"]
    for i, later in enumerate(feats):
        tag = later.get("locus_tag")
        if not tag:
            continue
        wanted = _crc_name(strip_name({"locus_tag": tag}), later["loc"])
        if any(strip_name(f) == wanted for f in feats[:i]):
            return True
    return False


_RAW_CLASSES: Dict[str, Callable[[str, Any], bool]] = {
    "C16-F1": _f1_strip_after_bookkeeping,
    "C16-F2": _f2_contig_number_too_wide,
    "C16-F3": _f3_splice_variant_name_taken,
}


def _base_clause(clause: str) -> str:
    return clause.split(" [", 1)[0]


def _bucket(clause: str, case) -> str:
    """Failures inside a known class are reported as '<clause> [<finding id>]': the driver keeps only
    the first 25 failures per clause name, and thousands of known ones would crowd out a new one."""
    for finding, predicate in _RAW_CLASSES.items():
        if predicate(clause, case):
            return f"{clause} [{finding}]"
    return clause


FINDING_CLASSES: Dict[str, Callable[[str, Any], bool]] = {
    finding: (lambda clause, case, _pred=predicate: _pred(_base_clause(clause), case))
    for finding, predicate in _RAW_CLASSES.items()
}
