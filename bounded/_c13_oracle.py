"""Independent oracles and case enumerators for the bounded stand-ins of C13 (and the hit
families reused by C17).  Nothing in this file imports antismash: every clause below is
computed from the property statement on plain tuples.

Conventions
-----------
refine family ("R"):   hit = [profile, start, end, score]   (e-value = 10**-score)
                       or [profile, start, end, score, evalue] when the e-value does not follow the score
                       output hit = [profile, start, end, evalue, bitscore]
hmmer family ("H"):    hit = [identifier, start, end, score]
filter family ("F"):   hit = [profile, cds, start, end, score]

Reading of the statement used by the oracles (documented where the statement is silent):

* "overlap" of two hits is the number of shared residues, |[a)∩[b)|.
* allowed margin: refinement: 20% of the longer of the two profile lengths, an overlap equal to
  the margin is allowed (docstring of _remove_overlapping); hmmer.remove_overlapping: fewer than
  `overlap_limit` shared residues are allowed ("the number of overlapping aminos required to be
  filtered"); filter_results: at most 20 shared residues are allowed.
* "better-ranked": refinement and filter_results do not document a tie-break, so a kept hit with
  an EQUAL score is accepted as justification; hmmer.remove_overlapping documents a total rank
  (normalised score, length, earliest start, identifier) and that one is demanded.
* when one hit lies inside the other the statement does not say how the overlap is measured
  (shared residues or overhang), so for the "dropped only if ..." clause a nested pair that shares
  at least one residue counts as overlapping, while the "no two returned hits overlap ..." clause
  uses the shared residues.  Both choices are the weaker demand.
* "incomplete fragment": covers at most half of its profile (default threshold of
  remove_incomplete); a fragment of at most a third (the fallback) may be dropped without an
  alternative ("ran out of fallbacks"), anything else needs a kept hit at least as complete.
* "close enough to be one domain": the merged span is shorter than 1.5 profile lengths, or one of
  the fragments already spans all the others (merging adds nothing to the span).
"""
from __future__ import annotations

from fractions import Fraction
from itertools import combinations
from typing import Any, Iterable, Iterator, Optional

# ------------------------------------------------------------------------------------------
# generic interval helpers


def inter(a0: int, a1: int, b0: int, b1: int) -> int:
    """ number of shared positions of [a0,a1) and [b0,b1) """
    return max(0, min(a1, b1) - max(a0, b0))


def nested(a0: int, a1: int, b0: int, b1: int) -> bool:
    """ one interval contains the other """
    return (a0 <= b0 and b1 <= a1) or (b0 <= a0 and a1 <= b1)


def intervals(pos: list[int]) -> list[tuple[int, int]]:
    return [(a, b) for i, a in enumerate(pos) for b in pos[i + 1:]]


def chunked_combinations(alphabet: list, sizes: Iterable[int], chunk: int, nchunks: int) -> Iterator[list]:
    """ every `nchunks`-th combination (offset chunk) of the alphabet for each size """
    idx = 0
    for size in sizes:
        for combo in combinations(alphabet, size):
            if idx % nchunks == chunk:
                yield list(combo)
            idx += 1


# ------------------------------------------------------------------------------------------
# R: refine_hmmscan_results

R_CONFIGS: dict[str, dict[str, Any]] = {
    # ---- thorough tier: 6-point grid, three scores
    # A: margin 4, merge span < 30, complete > 10, fallback > 6.67; B: margin 10 (== one grid step),
    # span < 75, complete > 25, fallback > 16.67; hits of A of length 30 == 1.5 L, 40/50 longer
    "r0": {"pos": [0, 10, 20, 30, 40, 50], "lens": {"A": 20, "B": 50}, "scores": [1, 2, 3]},
    # margin 6, span < 45, complete > 15, fallback > 10 (length 10 == fallback exactly)
    "r1": {"pos": [0, 10, 20, 30, 40, 50], "lens": {"A": 30, "B": 30}, "scores": [1, 2, 3]},
    # A: margin 20 (== two grid steps), nothing complete (50 == threshold), fallback > 33.3;
    # regulatorB: span < 90, complete > 30 (== length 30), fallback > 20 (== length 20)
    "r2": {"pos": [0, 10, 20, 30, 40, 50], "lens": {"A": 100, "regulatorB": 60}, "scores": [1, 2, 3]},
    # the same with two scores (sets of four)
    "r0s": {"pos": [0, 10, 20, 30, 40, 50], "lens": {"A": 20, "B": 50}, "scores": [1, 2]},
    "r1s": {"pos": [0, 10, 20, 30, 40, 50], "lens": {"A": 30, "B": 30}, "scores": [1, 2]},
    "r2s": {"pos": [0, 10, 20, 30, 40, 50], "lens": {"A": 100, "regulatorB": 60}, "scores": [1, 2]},
    # odd grid: overlaps 3/4/5 around the margin 4 of A, 9/10/11 around the margin 10 of B
    "r5": {"pos": [0, 6, 10, 15, 19, 30], "lens": {"A": 20, "B": 50}, "scores": [1, 2]},
    # ---- quick tier
    "q0": {"pos": [0, 10, 20, 30, 40, 50], "lens": {"A": 20, "B": 50}, "scores": [1, 2]},
    # A: margin 6, complete > 15, fallback > 10 (== length 10); B: margin 4, span < 30, complete > 10
    "q1": {"pos": [0, 10, 20, 30, 40], "lens": {"A": 30, "B": 20}, "scores": [1, 2]},
    # A: margin 20 (== two steps), nothing complete, fallback > 33.3; regulatorB: complete > 30, fallback > 20
    "q2": {"pos": [0, 10, 20, 30, 40], "lens": {"A": 100, "regulatorB": 60}, "scores": [1, 2]},
    # three scores (ties and strict orders among three) on a 4-point grid
    "q3": {"pos": [0, 10, 20, 30], "lens": {"A": 20, "B": 50}, "scores": [1, 2, 3]},
    # sets of four on a 4-point grid
    "q4": {"pos": [0, 10, 20, 30], "lens": {"A": 20, "B": 50}, "scores": [1, 2]},
    # overlaps 4 (== margin of A), 6, 10 (== margin of B), lengths 4, 6, 10, 14, 16, 20
    "q5": {"pos": [0, 6, 10, 16, 20], "lens": {"A": 20, "B": 50}, "scores": [1, 2]},
    # (bitscore, e-value) pairs that do NOT run in step: equal e-values with different scores (1 and 3 at
    # 1e-9), e-values opposite to the scores (1 at 1e-9, 3 at 1e-2), and a competitor score (2) between them
    "q6": {"pos": [0, 10, 20, 30], "lens": {"A": 20, "B": 50},
           "stats": [[1, 1e-9], [2, 1e-5], [3, 1e-2], [3, 1e-9]]},
    "r6": {"pos": [0, 10, 20, 30, 40], "lens": {"A": 20, "B": 50},
           "stats": [[1, 0.0], [2, 1e-5], [3, 1e-2], [3, 0.0], [2, 1e-9]]},
}


def r_alphabet(cfg: dict[str, Any]) -> list[list]:
    """ hits [profile, start, end, score] (e-value 10**-score) or, for configurations with explicit
        (score, e-value) pairs, [profile, start, end, score, evalue] """
    if "stats" in cfg:
        return [[p, a, b, s, e] for p in sorted(cfg["lens"]) for (a, b) in intervals(cfg["pos"])
                for s, e in cfg["stats"]]
    return [[p, a, b, s] for p in sorted(cfg["lens"]) for (a, b) in intervals(cfg["pos"])
            for s in cfg["scores"]]


def r_cases(cfg_name: str, sizes: Iterable[int], chunk: int, nchunks: int) -> Iterator[list]:
    return chunked_combinations(r_alphabet(R_CONFIGS[cfg_name]), sizes, chunk, nchunks)


def r_evalue(hit: list) -> float:
    return float(hit[4]) if len(hit) > 4 else 10.0 ** -hit[3]


def r_nontrivial(hits: list[list]) -> bool:
    """ at least two hits that interact: share a residue, share a profile or share a start """
    for i, x in enumerate(hits):
        for y in hits[i + 1:]:
            if x[0] == y[0] or x[1] == y[1] or inter(x[1], x[2], y[1], y[2]) > 0:
                return True
    return False


def _merge_candidates(hits: list[list], lens: dict[str, int]) -> list[dict[str, Any]]:
    """ all non-empty same-profile subsets with their span/best score and validity """
    by_profile: dict[str, list[int]] = {}
    for i, hit in enumerate(hits):
        by_profile.setdefault(hit[0], []).append(i)
    cands = []
    for profile, members in by_profile.items():
        for size in range(1, len(members) + 1):
            for sub in combinations(members, size):
                start = min(hits[i][1] for i in sub)
                end = max(hits[i][2] for i in sub)
                score = max(float(hits[i][3]) for i in sub)
                evalue = min(r_evalue(hits[i]) for i in sub)
                spanned_by_member = any(hits[i][1] == start and hits[i][2] == end for i in sub)
                valid = size == 1 or 2 * (end - start) < 3 * lens[profile] or spanned_by_member
                cands.append({"p": profile, "a": start, "b": end, "s": score, "e": evalue,
                              "members": frozenset(sub), "valid": valid})
    return cands


def _overlaps_beyond_margin(x0: int, x1: int, lx: int, y0: int, y1: int, ly: int, *, lenient: bool) -> bool:
    shared = inter(x0, x1, y0, y1)
    if 5 * shared > max(lx, ly):
        return True
    return bool(lenient and shared > 0 and nested(x0, x1, y0, y1))


def r_justified(cand: dict[str, Any], out: list[list], lens: dict[str, int]) -> bool:
    """ may the hit / merge `cand` be absent from `out` according to the statement: a kept hit that
        scores at least as well overlaps it beyond the margin, or it is an incomplete fragment and a
        kept hit is at least as complete (or it is at most a third of its profile) """
    length = lens[cand["p"]]
    for k in out:
        if k[4] >= cand["s"] and _overlaps_beyond_margin(k[1], k[2], lens[k[0]], cand["a"], cand["b"],
                                                           length, lenient=True):
            return True
    size = cand["b"] - cand["a"]
    if 2 * size <= length:  # incomplete
        if 3 * size <= length:  # below the fallback: may vanish without alternative
            return True
        prop = Fraction(size, length)
        for k in out:
            if Fraction(k[2] - k[1], lens[k[0]]) >= prop:
                return True
    return False


def refine_oracle(hits: list[list], lens: dict[str, int], out: Any) -> dict[str, str]:
    """ Evaluates the per-result clauses of the statement on one observed output.
        Returns {clause: detail} for the clauses that FAIL ("" values never appear). """
    failed: dict[str, str] = {}
    # shape
    ok_shape = isinstance(out, list) and all(
        isinstance(o, list) and len(o) == 5 and o[0] in lens and isinstance(o[1], int) and isinstance(o[2], int)
        for o in out)
    if not ok_shape:
        return {"refine/no-unexpected-exception": f"result is not a list of hits: {out!r}"[:300]}

    # ordered by position
    for first, second in zip(out, out[1:]):
        if first[1] > second[1]:
            failed["refine/ordered-by-position"] = f"{first} before {second}"
            break

    # no two returned hits overlap by more than the margin (all pairs)
    for i, x in enumerate(out):
        for y in out[i + 1:]:
            if _overlaps_beyond_margin(x[1], x[2], lens[x[0]], y[1], y[2], lens[y[0]], lenient=False):
                failed.setdefault("refine/no-two-overlap-beyond-margin",
                                  f"{x} and {y} share {inter(x[1], x[2], y[1], y[2])} > "
                                  f"0.2*{max(lens[x[0]], lens[y[0]])}")

    # every returned hit is an input hit or a valid merge spanning its fragments with the best score
    cands = _merge_candidates(hits, lens)
    represented: set[int] = set()
    for o in out:
        matched = False
        for cand in cands:
            if cand["valid"] and cand["p"] == o[0] and cand["a"] == o[1] and cand["b"] == o[2] \
                    and cand["e"] == o[3] and cand["s"] == o[4]:
                matched = True
                represented.update(cand["members"])
        if not matched:
            failed.setdefault("refine/returned-is-input-or-spanning-merge", f"{o} from {hits}")

    # a hit is dropped only if a better-ranked overlapping hit is kept, or it is an incomplete
    # fragment with a more complete alternative
    def justified(cand: dict[str, Any]) -> bool:
        return r_justified(cand, out, lens)

    for i, hit in enumerate(hits):
        if i in represented:
            continue
        if not any(cand["valid"] and i in cand["members"] and justified(cand) for cand in cands):
            failed.setdefault("refine/dropped-only-if-justified", f"{hit} missing from {out}")
            failed["_unjustified"] = failed.get("_unjustified", "") + f"{i},"
    return failed


def r_has_equal_starts(hits: list[list]) -> bool:
    starts = [h[1] for h in hits]
    return len(set(starts)) != len(starts)


def r_shrinkable_pair(hits: list[list]) -> bool:
    """ two same-profile hits x, y with x.start <= y.start and y.end < x.end (x longer if the
        starts are equal): the configuration in which HMMResult.merge loses the longer end """
    for x in hits:
        for y in hits:
            if x is y or x[0] != y[0]:
                continue
            if x[1] <= y[1] and y[2] < x[2]:
                return True
    return False


def r_shrunk_merge(hits: list[list], o: list) -> bool:
    """ o is a same-profile merge whose end was cut back to the end of a nested fragment:
        start/score/evalue of a subset S (>= 2 members), end = the end of a member, < max end """
    idxs = [i for i, h in enumerate(hits) if h[0] == o[0]]
    for size in range(2, len(idxs) + 1):
        for sub in combinations(idxs, size):
            start = min(hits[i][1] for i in sub)
            end = max(hits[i][2] for i in sub)
            if start != o[1] or not o[2] < end or o[2] not in {hits[i][2] for i in sub}:
                continue
            if max(float(hits[i][3]) for i in sub) == o[4] and min(r_evalue(hits[i]) for i in sub) == o[3]:
                return True
    return False


# ------------------------------------------------------------------------------------------
# remove_incomplete kernel (public function with explicit thresholds)

def incomplete_oracle(doms: list[list], lens: dict[str, int], threshold: Fraction, fallback: Fraction,
                      out_idx: Optional[list[int]]) -> str:
    """ doms: [profile, start, end]; out_idx: indices of the returned elements (None: the result
        was not a sub-list of the input).  Returns "" or a description of the violation. """
    if out_idx is None:
        return "result is not a sub-list of the input (in order, by identity)"
    props = [Fraction(d[2] - d[1], lens[d[0]]) for d in doms]
    kept = set(out_idx)
    for i, dom in enumerate(doms):
        if i in kept:
            continue
        if props[i] > threshold:
            return f"complete hit {dom} dropped"
        if any(props[k] >= props[i] for k in kept):
            continue  # an at least as complete alternative is kept
        if props[i] <= fallback and all(props[k] <= fallback for k in kept) and len(kept) <= 1:
            continue  # ran out of fallbacks (at most a single last-resort hit remains)
        return f"incomplete hit {dom} dropped without a more complete alternative (kept {sorted(kept)})"
    return ""


# ------------------------------------------------------------------------------------------
# H: hmmer.remove_overlapping

H_CONFIGS: dict[str, dict[str, Any]] = {
    # overlap == limit at one grid step; normalised ties: PF1 20/10 == PF2 40/20, PF1 30/10 == PF2 60/20
    "h0": {"pos": [0, 10, 20, 30, 40, 50], "cutoffs": {"PF1": 10, "PF2": 20},
           "scores": {"PF1": [20, 30], "PF2": [40, 60]}, "limit": 10},
    # overlaps 9 / 10 / 11 around the limit, hits shorter than the limit (length 1, 9), nested short hits
    "h1": {"pos": [0, 9, 10, 19, 20], "cutoffs": {"PF1": 10, "PF2": 20},
           "scores": {"PF1": [20, 30], "PF2": [40, 50]}, "limit": 10},
    # another limit
    "h2": {"pos": [0, 4, 5, 9, 10], "cutoffs": {"PF1": 10, "PF2": 30},
           "scores": {"PF1": [20, 30], "PF2": [60, 45]}, "limit": 5},
    # thorough: three scores / six points
    "h3": {"pos": [0, 10, 20, 30, 40, 50], "cutoffs": {"PF1": 10, "PF2": 20},
           "scores": {"PF1": [20, 30], "PF2": [40, 50, 60]}, "limit": 10},
    "h4": {"pos": [0, 9, 10, 19, 20, 30], "cutoffs": {"PF1": 10, "PF2": 20},
           "scores": {"PF1": [20, 30], "PF2": [40, 50]}, "limit": 10},
}


def h_alphabet(cfg: dict[str, Any]) -> list[list]:
    return [[p, a, b, s] for p in sorted(cfg["cutoffs"]) for (a, b) in intervals(cfg["pos"])
            for s in cfg["scores"][p]]


def h_cases(cfg_name: str, sizes: Iterable[int], chunk: int, nchunks: int) -> Iterator[list]:
    return chunked_combinations(h_alphabet(H_CONFIGS[cfg_name]), sizes, chunk, nchunks)


def h_rank(hit: list, cutoffs: dict[str, int]) -> tuple:
    """ documented rank (smaller = better): highest normalised score, longest, earliest start, identifier """
    return (-Fraction(hit[3]) / Fraction(cutoffs[hit[0]]), -(hit[2] - hit[1]), hit[1], hit[0])


def hmmer_oracle(hits: list[list], cutoffs: dict[str, int], limit: int, out: Any) -> dict[str, str]:
    failed: dict[str, str] = {}
    if not isinstance(out, list) or not all(isinstance(o, list) and len(o) == 4 for o in out):
        return {"hmmer/no-unexpected-exception": f"result is not a list of hits: {out!r}"[:300]}
    for first, second in zip(out, out[1:]):
        if first[1] > second[1]:
            failed["hmmer/ordered-by-position"] = f"{first} before {second}"
            break
    as_tuples = [tuple(h) for h in hits]
    out_tuples = [tuple(o) for o in out]
    if any(o not in as_tuples for o in out_tuples) or len(set(out_tuples)) != len(out_tuples):
        failed["hmmer/returned-is-input"] = f"{out} from {hits}"
    if not out and hits:
        failed["hmmer/returned-is-input"] = "nothing returned"
    for i, x in enumerate(out):
        for y in out[i + 1:]:
            if inter(x[1], x[2], y[1], y[2]) >= limit:
                failed.setdefault("hmmer/no-two-overlap-beyond-margin",
                                  f"{x} and {y} share {inter(x[1], x[2], y[1], y[2])} >= {limit}")
    kept = [o for o in out_tuples if o in as_tuples]
    for hit in as_tuples:
        if hit in kept:
            continue
        rank = h_rank(list(hit), cutoffs)
        for k in kept:
            shared = inter(k[1], k[2], hit[1], hit[2])
            if h_rank(list(k), cutoffs) < rank and (shared >= limit or (shared > 0 and nested(k[1], k[2], hit[1], hit[2]))):
                break
        else:
            failed.setdefault("hmmer/dropped-only-if-justified", f"{list(hit)} missing from {out}")
    return failed


def h_nontrivial(hits: list[list]) -> bool:
    return any(inter(x[1], x[2], y[1], y[2]) > 0 for i, x in enumerate(hits) for y in hits[i + 1:])


# ------------------------------------------------------------------------------------------
# F: filter_results / filter_result_multiple (hit = [profile, cds, start, end, score])

F_GROUP = ["P1", "P2"]           # the equivalence group; P3 is not a member
F_CONFIGS: dict[str, dict[str, Any]] = {
    # overlaps 20 (allowed) and 21 (competing) side by side
    "f0": {"ivs": [[0, 41], [20, 62], [21, 62], [21, 41], [42, 62], [0, 62]],
           "profiles": ["P1", "P2", "P3"], "scores": [1, 2], "sizes": [1, 2, 3]},
    # chains: consecutive intervals share 21, next-but-one share nothing
    "f1": {"ivs": [[0, 42], [21, 63], [42, 84], [63, 105]],
           "profiles": ["P1", "P2"], "scores": [1, 2, 3], "sizes": [1, 2, 3, 4]},
    # the same chains with two scores, for sets of four in the quick tier
    "f3": {"ivs": [[0, 42], [21, 63], [42, 84], [63, 105]],
           "profiles": ["P1", "P2"], "scores": [1, 2], "sizes": [4]},
    # two genes
    "f2": {"ivs": [[0, 41], [20, 62], [21, 62]], "profiles": ["P1", "P2"], "scores": [1, 2],
           "cdses": ["g1", "g2"], "sizes": [1, 2, 3]},
}


def f_alphabet(cfg: dict[str, Any]) -> list[list]:
    return [[p, c, a, b, s] for c in cfg.get("cdses", ["g1"]) for p in cfg["profiles"]
            for (a, b) in cfg["ivs"] for s in cfg["scores"]]


def f_cases(cfg_name: str, chunk: int, nchunks: int, sizes: Optional[Iterable[int]] = None) -> Iterator[list]:
    cfg = F_CONFIGS[cfg_name]
    return chunked_combinations(f_alphabet(cfg), sizes or cfg["sizes"], chunk, nchunks)


def f_components(hits: list[list], idxs: list[int]) -> list[list[int]]:
    """ connected components (indices) of the relation "share more than 20 residues" among idxs """
    parent = {i: i for i in idxs}

    def find(i: int) -> int:
        while parent[i] != i:
            parent[i] = parent[parent[i]]
            i = parent[i]
        return i
    for n, i in enumerate(idxs):
        for j in idxs[n + 1:]:
            if inter(hits[i][2], hits[i][3], hits[j][2], hits[j][3]) > 20:
                parent[find(i)] = find(j)
    comps: dict[int, list[int]] = {}
    for i in idxs:
        comps.setdefault(find(i), []).append(i)
    return list(comps.values())


def filter_results_oracle(hits: list[list], group: list[str], kept: Any) -> dict[str, str]:
    """ kept: indices (into hits) of the survivors of filter_results, or an error text """
    failed: dict[str, str] = {}
    if not isinstance(kept, list):
        return {"filter/no-unexpected-exception": str(kept)[:300]}
    if len(set(kept)) != len(kept) or any(not isinstance(i, int) or not 0 <= i < len(hits) for i in kept):
        return {"filter/survivors-are-input-hits": f"{kept}"}
    keep = set(kept)
    cdses = sorted({h[1] for h in hits})
    for cds in cdses:
        idxs = [i for i, h in enumerate(hits) if h[1] == cds]
        competing = len({hits[i][0] for i in idxs} & set(group)) >= 2
        dropped = [i for i in idxs if i not in keep]
        if not competing:
            if dropped:
                failed.setdefault("filter/no-competition-without-equivalent-profiles",
                                  f"{[hits[i] for i in dropped]} dropped from {cds}")
            continue
        only_group = all(hits[i][0] in group for i in idxs)
        for comp in f_components(hits, idxs):
            best = max(hits[i][4] for i in comp)
            survivors = [i for i in comp if i in keep]
            # every dropped hit has a kept hit of its overlapping group that scores at least as well
            for i in comp:
                if i not in keep and not any(hits[k][4] >= hits[i][4] for k in survivors):
                    failed.setdefault("filter/dropped-only-if-justified", f"{hits[i]} dropped, kept {[hits[k] for k in survivors]}")
            if len(comp) < 2:
                continue
            # the single best-scoring hit of each overlapping group survives
            if not any(hits[k][4] == best for k in survivors):
                failed.setdefault("filter/best-of-each-overlap-group-survives",
                                  f"no best-scoring survivor in {[hits[i] for i in comp]}")
            elif only_group and len(survivors) != 1:
                failed.setdefault("filter/best-of-each-overlap-group-survives",
                                  f"{len(survivors)} survivors in {[hits[i] for i in comp]}")
    return failed


def filter_multiple_oracle(hits: list[list], kept: Any) -> dict[str, str]:
    """ survivors of filter_result_multiple applied to `hits`: per gene and profile exactly one, a best-scoring one """
    failed: dict[str, str] = {}
    if not isinstance(kept, list):
        return {"filter/no-unexpected-exception": str(kept)[:300]}
    if len(set(kept)) != len(kept) or any(not isinstance(i, int) or not 0 <= i < len(hits) for i in kept):
        return {"filter/survivors-are-input-hits": f"{kept}"}
    groups: dict[tuple, list[int]] = {}
    for i, hit in enumerate(hits):
        groups.setdefault((hit[1], hit[0]), []).append(i)
    for key, members in groups.items():
        survivors = [i for i in members if i in kept]
        best = max(hits[i][4] for i in members)
        if len(survivors) != 1 or hits[survivors[0]][4] != best:
            failed.setdefault("filter/best-of-each-profile-survives",
                              f"{key}: survivors {[hits[i] for i in survivors]} of {[hits[i] for i in members]}")
    return failed


def f_nontrivial(hits: list[list]) -> bool:
    for i, x in enumerate(hits):
        for y in hits[i + 1:]:
            if x[1] == y[1] and (x[0] == y[0] or inter(x[2], x[3], y[2], y[3]) > 20):
                return True
    return False


def f_tied_best_in_component(hits: list[list]) -> bool:
    """ some overlapping group (per gene, all hits) has two hits with the best score """
    for cds in {h[1] for h in hits}:
        idxs = [i for i, h in enumerate(hits) if h[1] == cds]
        for comp in f_components(hits, idxs):
            scores = [hits[i][4] for i in comp]
            if len(comp) > 1 and scores.count(max(scores)) > 1:
                return True
    return False


def f_tied_best_in_profile(hits: list[list]) -> bool:
    groups: dict[tuple, list] = {}
    for hit in hits:
        groups.setdefault((hit[1], hit[0]), []).append(hit[4])
    return any(len(s) > 1 and s.count(max(s)) > 1 for s in groups.values())


# ------------------------------------------------------------------------------------------
# classes of inputs behind the known findings of refine_hmmscan_results (used by
# C13.FINDING_CLASSES; each is a predicate over the input, the clause and, where stored,
# the observed output)

def r_lost_to_vanished_competitor(hits: list[list], lens: dict[str, int], out: list[list], i: int) -> bool:
    """ What the single greedy pass + later completeness filter did to input hit i, read off the input and
        the observed output: hit i (or a valid merge containing it) has a competitor among the inputs / their
        valid merges that scores at least as well and overlaps it beyond the margin, and that competitor is
        itself absent from the output for an accountable reason - its absence is justified by the output
        (a kept better overlapping hit, or it is an incomplete fragment), or it in turn lost to such a
        competitor.  So i lost a comparison, and the winner was replaced / filtered afterwards. """
    cands = [c for c in _merge_candidates(hits, lens) if c["valid"]]
    kept = {(o[0], o[1], o[2], o[3], o[4]) for o in out}

    def absent(cand: dict[str, Any]) -> bool:
        return (cand["p"], cand["a"], cand["b"], cand["e"], cand["s"]) not in kept

    def beaten_by_vanished(mine: dict[str, Any], seen: frozenset) -> bool:
        for n, other in enumerate(cands):
            if n in seen or other["members"] & mine["members"] or other["s"] < mine["s"] or not absent(other):
                continue
            if not _overlaps_beyond_margin(other["a"], other["b"], lens[other["p"]], mine["a"], mine["b"],
                                           lens[mine["p"]], lenient=True):
                continue
            if r_justified(other, out, lens) or beaten_by_vanished(other, seen | {n}):
                return True
        return False

    return any(i in mine["members"] and beaten_by_vanished(mine, frozenset({n}))
               for n, mine in enumerate(cands))


def r_pair_with_hit_between(hits: list[list], lens: dict[str, int], out: list[list]) -> bool:
    """ every pair of returned hits that overlaps beyond the margin has a third input hit starting
        between their starts (so the single pass never compared the two with each other) """
    found = False
    for n, x in enumerate(out):
        for y in out[n + 1:]:
            if not _overlaps_beyond_margin(x[1], x[2], lens[x[0]], y[1], y[2], lens[y[0]], lenient=False):
                continue
            lo, hi = sorted((x[1], y[1]))
            between = [z for z in hits if lo <= z[1] <= hi and
                       (z[0], z[1], z[2]) not in ((x[0], x[1], x[2]), (y[0], y[1], y[2]))]
            if not between:
                return False
            found = True
    return found


def h_short_first(hits: list[list], limit: int) -> bool:
    """ a hit with the smallest start is shorter than the limit (remove_overlapping then closes the
        first group twice) """
    first = min(h[1] for h in hits)
    return any(h[1] == first and h[2] - h[1] < limit for h in hits)


def h_equal_start_short(hits: list[list], limit: int) -> bool:
    """ two hits with the same start, one of them shorter than the limit """
    for i, x in enumerate(hits):
        for y in hits[i + 1:]:
            if x[1] == y[1] and min(x[2] - x[1], y[2] - y[1]) < limit:
                return True
    return False
