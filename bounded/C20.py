"""Bounded stand-in for C20: a failed or refused write never damages existing results.

Two families, both evaluated on the real code by fault injection from the outside (no repo change):

part "write"  AntismashResults.write_to_file / serialiser.dump_records with a path or an open handle
              as target, over 1..N real records x 1..M module results per record, exactly one of
              which (every position, one at a time) fails to convert: its to_json raises, or returns
              something that antismash.common.json.dumps cannot convert (checked in isolation first:
              that is the premise "converting ... fails"), or fails inside a nested to_json/__json__
              reached through _base_convertor, or the entry is not a ModuleResults at all.  A results
              file exists at the target beforehand (a valid earlier results file / arbitrary bytes /
              an empty file).  Required: an exception leaves the call (failure reported) and the bytes
              of the file are the same as before.
part "dir"    main.prepare_output_directory on a temp directory holding every subset of a small
              universe of entries (input copy dir, a FILE called input, log file configured / not
              configured / configured elsewhere under the same basename, previous json, region gbk,
              full gbk, stray file, stray dir, a dir whose name merely ends in "input", hidden file)
              x run mode (fresh input seq.gbk, fresh input whose name contains ".json" but does not
              end with it, reuse of a json inside the directory).  Required: fresh mode with any entry
              other than the input copy dir / the configured log file -> refusal (exception) ; every
              refusal leaves the tree byte-for-byte untouched; reuse mode removes nothing but
              *.region???.gbk files (the reused results stay).

The oracle is computed from the statement: allowed(entry) is decided from the entry's name and kind
as the harness created it, never by calling _ignore_patterns.
"""
from __future__ import annotations

import fnmatch
import itertools
import logging
import os
import shutil
import tempfile
from typing import Any, Iterator

RULE = ("write: exhaustive product of (function, target kind, #records, #modules, fault position, fault kind, "
        "previous file content); a case is non-trivial when the injected fault was actually reached (the "
        "failing conversion ran) - distinct by the whole case.  dir: exhaustive product of the entry universe "
        "and run modes; non-trivial when the directory is non-empty and (a refusal is required or reuse mode "
        "has something to keep) - distinct by the whole case.  thorough adds larger N, M and seeded "
        "multi-fault / later-call faults.")
EXHAUSTIVE = {"quick": True, "thorough": False}



def _only_hidden_offender(clause: str, case: dict) -> bool:
    """ fresh run, and the ONLY entry besides the input copy dir / configured log file is a dot-file """
    return (clause == "refuses-foreign-contents" and case.get("part") == "dir" and not case.get("not_a_dir")
            and case.get("hidden") == 1 and case.get("mode") != "reuse"
            and case.get("input") in ("none", "dir") and case.get("log") in ("none", "configured")
            and not case.get("json") and not case.get("region_gbk") and not case.get("full_gbk")
            and not case.get("stray_file") and case.get("stray_dir") == "none")


FINDING_CLASSES: dict = {"C20-F1": _only_hidden_offender}

# --------------------------------------------------------------------------------------------
# lazy access to the code under test
# --------------------------------------------------------------------------------------------
_AM: dict[str, Any] = {}


def _am() -> dict[str, Any]:
    if _AM:
        return _AM
    logging.disable(logging.CRITICAL)
    from Bio.Seq import Seq  # pylint: disable=import-outside-toplevel
    from antismash import main as as_main  # pylint: disable=import-outside-toplevel
    from antismash.common import json as as_json, serialiser  # pylint: disable=import-outside-toplevel
    from antismash.common.errors import AntismashInputError  # pylint: disable=import-outside-toplevel
    from antismash.common.module_results import ModuleResults  # pylint: disable=import-outside-toplevel
    from antismash.common.secmet import Record  # pylint: disable=import-outside-toplevel
    from antismash.common.secmet.features import CDSFeature  # pylint: disable=import-outside-toplevel
    from antismash.common.secmet.locations import FeatureLocation  # pylint: disable=import-outside-toplevel
    from antismash.config import build_config, update_config  # pylint: disable=import-outside-toplevel

    build_config([], isolated=True, modules=as_main.get_all_modules())

    class Stub(ModuleResults):
        """ a module results object whose conversion behaviour is scripted """
        def __init__(self, record_id: str, script: str, tag: str) -> None:
            super().__init__(record_id)
            self.script = script
            self.tag = tag
            self.calls = 0
            self.fired = False

        def to_json(self) -> Any:
            self.calls += 1
            return _play(self, self.script, self.tag)

        def add_to_record(self, record: Any) -> None:
            pass

    _AM.update(Seq=Seq, main=as_main, json=as_json, serialiser=serialiser, InputError=AntismashInputError,
               ModuleResults=ModuleResults, Record=Record, CDSFeature=CDSFeature,
               FeatureLocation=FeatureLocation, update_config=update_config, Stub=Stub)
    return _AM


# --------------------------------------------------------------------------------------------
# part "write": fault kinds
# --------------------------------------------------------------------------------------------
class _NestedRaises:
    def __init__(self, exc: type) -> None:
        self.exc = exc

    def to_json(self) -> Any:
        raise self.exc("nested conversion failed")


class _NestedDunderRaises:
    def __json__(self) -> Any:
        raise KeyError("nested __json__ failed")


class _Selfie:
    def to_json(self) -> Any:
        return self


class _NoConversion:  # neither to_json nor __json__
    pass


def _deep(levels: int) -> list:
    top: list = []
    cur = top
    for _ in range(levels):
        nxt: list = []
        cur.append(nxt)
        cur = nxt
    return top


RAISERS = {
    "raise-TypeError": TypeError,
    "raise-ValueError": ValueError,
    "raise-KeyError": KeyError,
    "raise-RuntimeError": RuntimeError,
    "raise-NotImplementedError": NotImplementedError,   # what the ModuleResults base class does
    "raise-AssertionError": AssertionError,
}
POISON = {   # payloads that the repo's own json.dumps cannot convert (premise re-checked in isolation)
    "poison-object-top": lambda: {"value": _NoConversion()},
    "poison-object-deep": lambda: {"a": [1, {"b": [{"c": _NoConversion()}]}], "z": 1},
    "poison-set": lambda: {"hits": {"x", "y"}},
    "poison-bytes": lambda: {"raw": b"\x00\x01"},
    "poison-bigint": lambda: {"n": 2 ** 64},
    "poison-surrogate": lambda: {"s": "bad \ud800 text"},
    "poison-tuple-key": lambda: {(1, 2): "v"},
    "poison-depth": lambda: {"nest": _deep(300)},
    "poison-nested-to_json-raises-ValueError": lambda: {"inner": [_NestedRaises(ValueError)]},
    "poison-nested-to_json-raises-TypeError": lambda: {"inner": {"k": _NestedRaises(TypeError)}},
    "poison-nested-__json__-raises": lambda: {"inner": _NestedDunderRaises()},
    "poison-default-recursion": lambda: {"inner": _Selfie()},
}
OTHER = ["not-a-ModuleResults", "raise-on-2nd-call", "poison-on-2nd-call"]
RECORD_LEVEL = ["record-annotation-poison"]      # position = a record, no module
GLOBAL_LEVEL = ["timings-poison"]                # write_to_file only, no position

MODULE_KINDS = list(RAISERS) + list(POISON) + OTHER
PRE_KINDS = ["previous-results", "garbage-bytes", "empty"]
TARGETS = [("write_to_file", "path"), ("write_to_file", "handle"),
           ("dump_records", "path"), ("dump_records", "handle")]


def _play(stub: Any, script: str, tag: str) -> Any:
    good = {"tag": tag, "values": [1, 2.5, "x", None, True], "nested": {"k": [0.1]}}
    if script == "good":
        return good
    if script in RAISERS:
        stub.fired = True
        raise RAISERS[script](f"injected {script} in {tag}")
    if script in POISON:
        stub.fired = True
        return POISON[script]()
    if script == "raise-on-2nd-call":
        if stub.calls >= 2:
            stub.fired = True
            raise ValueError(f"injected on call {stub.calls} in {tag}")
        return good
    if script == "poison-on-2nd-call":
        if stub.calls >= 2:
            stub.fired = True
            return {"value": _NoConversion()}
        return good
    raise AssertionError(f"unknown script {script}")


def _premise_conversion_fails(kind: str) -> bool:
    """ the payload of a poison kind really is inconvertible for the repo's json.dumps, in isolation """
    if kind in ("poison-on-2nd-call", "record-annotation-poison", "timings-poison"):
        payload: Any = {"value": _NoConversion()}
    elif kind in POISON:
        payload = POISON[kind]()
    else:
        return True
    try:
        _am()["json"].dumps(payload)
    except Exception:  # pylint: disable=broad-except
        return True
    return False


def _make_records(count: int) -> list:
    mods = _am()
    records = []
    for i in range(count):
        seq = ("ATGAAACCCGGGTAG" + "GC" * (3 + i)) * 2
        rec = mods["Record"](mods["Seq"](seq), id=f"rec{i}", name=f"rec{i}")
        rec.add_cds_feature(mods["CDSFeature"](mods["FeatureLocation"](0, 15, 1), locus_tag=f"r{i}_g1",
                                                translation="MKPG"))
        records.append(rec)
    return records


def _build_results(case: dict) -> tuple[Any, list, list]:
    """ returns (AntismashResults, list of stubs that carry a fault, list of all stubs) """
    mods = _am()
    nrec, nmod = case["nrec"], case["nmod"]
    faults = {(f[0], f[1]): f[2] for f in case["faults"]}
    records = _make_records(nrec)
    all_results = []
    faulty, stubs = [], []
    for i in range(nrec):
        per_record: dict[str, Any] = {}
        for j in range(nmod):
            name = f"antismash.modules.stub{j}"
            kind = faults.get((i, j), "good")
            if kind == "not-a-ModuleResults":
                per_record[name] = {"leftover": "json of a module that was not regenerated"}
                continue
            if kind == "good" and nmod >= 3 and j == 1:
                per_record[name] = None      # legitimately skipped entry
                continue
            stub = mods["Stub"](records[i].id, kind, f"rec{i}/mod{j}")
            per_record[name] = stub
            stubs.append(stub)
            if kind != "good":
                faulty.append(stub)
        all_results.append(per_record)
    for (i, j), kind in faults.items():
        if kind == "record-annotation-poison":
            records[i].annotations["injected"] = _NoConversion()
    timings: dict[str, Any] = {records[0].id: {"antismash.modules.stub0": 0.5}}
    if any(kind == "timings-poison" for kind in faults.values()):
        timings[records[0].id]["poison"] = _NoConversion()
    results = mods["serialiser"].AntismashResults("input.gbk", records, all_results, "8.dev", timings=timings)
    return results, faulty, stubs


def _previous_bytes(case: dict) -> bytes:
    pre = case["pre"]
    if pre == "empty":
        return b""
    if pre == "garbage-bytes":
        return b"\xff\xfe\x00not json at all\n{{{" + bytes(range(256))
    # a valid earlier results file: made without the code under test being trusted for it
    import json as std_json  # pylint: disable=import-outside-toplevel
    return std_json.dumps({"version": "7.1.0", "input_file": "input.gbk", "records": [
        {"id": f"rec{i}", "seq": {"data": "ATGC", "alphabet": "DNA"}, "features": [], "name": f"rec{i}",
         "description": "", "dbxrefs": [], "annotations": {"references": []}, "letter_annotations": {},
         "areas": [], "modules": {"antismash.modules.stub0": {"old": True}}}
        for i in range(case["nrec"])], "timings": {}, "taxon": "bacteria", "schema": 4}).encode()


def _eval_write(case: dict, workdir: str) -> list[tuple[str, bool, bool, str]]:
    mods = _am()
    results, faulty, _ = _build_results(case)
    kinds = list({(f[0], f[1]): f[2] for f in case["faults"]}.values())   # last one wins per position
    target = os.path.join(workdir, "input.json")
    before = _previous_bytes(case)
    with open(target, "wb") as handle:
        handle.write(before)

    raised: Any = None
    handle_obj = None
    try:
        dest: Any = target
        if case["target"] == "handle":
            handle_obj = open(target, "r+", encoding="utf-8", errors="surrogateescape")  # pylint: disable=consider-using-with
            dest = handle_obj
        if case["fn"] == "write_to_file":
            results.write_to_file(dest)
        else:
            mods["serialiser"].dump_records(results.results, results.records, dest)
    except Exception as err:  # pylint: disable=broad-except
        raised = err
    finally:
        if handle_obj is not None:
            try:
                handle_obj.close()
            except Exception:  # pylint: disable=broad-except
                pass
    try:
        with open(target, "rb") as handle:
            after: Any = handle.read()
    except OSError:
        after = None

    # was a failing conversion actually reached?
    reached = any(stub.fired for stub in faulty)
    for kind in kinds:
        if kind == "not-a-ModuleResults":
            reached = True      # the entry is not convertible by definition (serialiser.py: explicit TypeError)
        if kind == "record-annotation-poison":
            reached = True
        if kind == "timings-poison" and case["fn"] == "write_to_file":
            reached = True
    premise = all(_premise_conversion_fails(kind) for kind in kinds)
    if not reached or not premise:
        return [("fault-not-reached", True, False, "")]
    out = []
    out.append(("failure-reported", raised is not None, True,
                "" if raised is not None else "the conversion failed but no exception left the call"))
    same = after == before
    detail = ""
    if not same:
        detail = (f"file had {len(before)} bytes, now "
                  f"{'is missing' if after is None else str(len(after)) + ' bytes'}; raised={raised!r}")
    out.append(("existing-file-unchanged", same, True, detail))
    return out


def _write_cases(max_rec: int, max_mod: int) -> Iterator[dict]:
    for (func, target), nrec, nmod in itertools.product(TARGETS, range(1, max_rec + 1), range(1, max_mod + 1)):
        for pre in PRE_KINDS:
            for i in range(nrec):
                for j in range(nmod):
                    for kind in MODULE_KINDS:
                        yield {"part": "write", "fn": func, "target": target, "nrec": nrec, "nmod": nmod,
                               "faults": [[i, j, kind]], "pre": pre}
                for kind in RECORD_LEVEL:
                    yield {"part": "write", "fn": func, "target": target, "nrec": nrec, "nmod": nmod,
                           "faults": [[i, -1, kind]], "pre": pre}
            if func == "write_to_file":
                for kind in GLOBAL_LEVEL:
                    yield {"part": "write", "fn": func, "target": target, "nrec": nrec, "nmod": nmod,
                           "faults": [[-1, -1, kind]], "pre": pre}


# --------------------------------------------------------------------------------------------
# part "dir": prepare_output_directory
# --------------------------------------------------------------------------------------------
INPUT_KINDS = ["none", "dir", "file"]
LOG_KINDS = ["none", "configured", "unconfigured", "same-basename-elsewhere"]
STRAY_DIRS = ["none", "stray", "xinput"]
MODES = ["fresh", "fresh-json-in-name", "reuse"]
LOG_NAME = "run.log"


def _dir_cases() -> Iterator[dict]:
    for inp, log, prev_json, region, full, stray, sdir, hidden, mode in itertools.product(
            INPUT_KINDS, LOG_KINDS, (0, 1), (0, 1), (0, 1), (0, 1), STRAY_DIRS, (0, 1), MODES):
        yield {"part": "dir", "input": inp, "log": log, "json": prev_json, "region_gbk": region,
               "full_gbk": full, "stray_file": stray, "stray_dir": sdir, "hidden": hidden, "mode": mode}
    # the target exists but is a file
    for mode in MODES:
        yield {"part": "dir", "not_a_dir": 1, "mode": mode}


def _populate(case: dict, outdir: str) -> dict[str, bool]:
    """ creates the entries; returns {top-level name: allowed by the statement} """
    allowed: dict[str, bool] = {}

    def put(name: str, data: bytes) -> None:
        with open(os.path.join(outdir, name), "wb") as handle:
            handle.write(data)

    if case["input"] == "dir":
        os.mkdir(os.path.join(outdir, "input"))
        put(os.path.join("input", "seq.gbk"), b"LOCUS copy of the input\n")
        allowed["input"] = True          # "its own input copy"
    elif case["input"] == "file":
        put("input", b"a file that merely is called input\n")
        allowed["input"] = False
    if case["log"] != "none":
        put(LOG_NAME, b"INFO 2024 earlier log line\n")
        allowed[LOG_NAME] = case["log"] == "configured"    # only the log file of THIS run is exempt
    if case["json"]:
        put("x.json", b'{"version": "7", "records": [], "schema": 4}')
        allowed["x.json"] = False         # exempt only as "the results being reused" (reuse mode)
    if case["region_gbk"]:
        put("x.region001.gbk", b"LOCUS region\n//\n")
        allowed["x.region001.gbk"] = False
    if case["full_gbk"]:
        put("x.gbk", b"LOCUS full\n//\n")
        allowed["x.gbk"] = False
    if case["stray_file"]:
        put("notes.txt", b"somebody's notes\n")
        allowed["notes.txt"] = False
    if case["stray_dir"] != "none":
        os.mkdir(os.path.join(outdir, case["stray_dir"]))
        put(os.path.join(case["stray_dir"], "data.bin"), b"\x00\x01\x02")
        allowed[case["stray_dir"]] = False
    if case["hidden"]:
        put(".hidden_notes", b"hidden but somebody's\n")
        allowed[".hidden_notes"] = False
    return allowed


def _snapshot(path: str) -> dict[str, Any]:
    """ the tree below path: relative name -> ('d',) | ('l', target) | ('f', bytes) ; {} if missing """
    snap: dict[str, Any] = {}
    if os.path.islink(path):
        return {".": ("l", os.readlink(path))}
    if os.path.isfile(path):
        with open(path, "rb") as handle:
            return {".": ("f", handle.read())}
    if not os.path.isdir(path):
        return {}
    snap["."] = ("d",)
    for root, dirs, files in os.walk(path):
        for name in dirs + files:
            full = os.path.join(root, name)
            rel = os.path.relpath(full, path)
            if os.path.islink(full):
                snap[rel] = ("l", os.readlink(full))
            elif os.path.isdir(full):
                snap[rel] = ("d",)
            else:
                with open(full, "rb") as handle:
                    snap[rel] = ("f", handle.read())
    return snap


def _diff(before: dict, after: dict) -> str:
    gone = sorted(set(before) - set(after))
    new = sorted(set(after) - set(before))
    changed = sorted(k for k in set(before) & set(after) if before[k] != after[k])
    return f"removed={gone} created={new} modified={changed}"


def _is_region_gbk(name: str) -> bool:
    """ top-level name of the form <prefix>.region<3 characters>.gbk (per-region output of an earlier run) """
    return os.sep not in name and fnmatch.fnmatchcase(name, "*.region???.gbk")


def _eval_dir(case: dict, workdir: str) -> list[tuple[str, bool, bool, str]]:
    mods = _am()
    outdir = os.path.join(workdir, "out")
    elsewhere = os.path.join(workdir, "elsewhere")
    os.mkdir(elsewhere)
    mode = case["mode"]
    if mode == "fresh":
        input_file = os.path.join(elsewhere, "seq.gbk")
    elif mode == "fresh-json-in-name":
        input_file = os.path.join(elsewhere, "seq.json.gbk")
    else:
        input_file = os.path.join(outdir, "x.json")

    if case.get("not_a_dir"):
        with open(outdir, "wb") as handle:
            handle.write(b"I am a file\n")
        allowed: dict[str, bool] = {}
        logfile = ""
    else:
        os.mkdir(outdir)
        allowed = _populate(case, outdir)
        logfile = ""
        if case["log"] == "configured":
            logfile = os.path.join(outdir, LOG_NAME)
        elif case["log"] == "same-basename-elsewhere":
            logfile = os.path.join(elsewhere, LOG_NAME)
    mods["update_config"]({"logfile": logfile, "output_basename": "", "output_dir": outdir})

    before = _snapshot(outdir)
    raised: Any = None
    try:
        mods["main"].prepare_output_directory(outdir, input_file)
    except Exception as err:  # pylint: disable=broad-except
        raised = err
    after = _snapshot(outdir)
    mods["update_config"]({"logfile": "", "output_basename": ""})

    out = []
    fresh = mode != "reuse"
    if case.get("not_a_dir"):
        out.append(("refuses-unusable-target", raised is not None, True,
                    "" if raised is not None else "an existing non-directory was accepted as output directory"))
        out.append(("refusal-leaves-contents-untouched", before == after, True,
                    "" if before == after else _diff(before, after)))
        return out

    offenders = sorted(name for name, okay in allowed.items() if not okay)
    if fresh:
        if offenders:
            out.append(("refuses-foreign-contents", raised is not None, True,
                        "" if raised is not None else
                        f"accepted a directory containing {offenders} for a fresh run"))
        else:
            out.append(("no-foreign-contents", True, False, ""))
    if raised is not None:
        out.append(("refusal-leaves-contents-untouched", before == after, bool(allowed),
                    "" if before == after else f"raised {raised!r} but " + _diff(before, after)))
    if not fresh:
        keep_before = {k: v for k, v in before.items() if not _is_region_gbk(k)}
        keep_after = {k: v for k, v in after.items() if not _is_region_gbk(k)}
        lost = {k: v for k, v in keep_before.items() if keep_after.get(k) != v}
        out.append(("reuse-keeps-existing-results", not lost, bool(keep_before.keys() - {"."}),
                    "" if not lost else f"reuse mode damaged {sorted(lost)}"))
    return out


# --------------------------------------------------------------------------------------------
# driver interface
# --------------------------------------------------------------------------------------------
N_WRITE_SHARDS = 24
N_DIR_SHARDS = 8


def shards(tier: str, seed: int) -> list:
    _am()   # import in the parent so that forked workers share it
    out: list = [{"part": "write", "k": k, "n": N_WRITE_SHARDS} for k in range(N_WRITE_SHARDS)]
    out += [{"part": "dir", "k": k, "n": N_DIR_SHARDS} for k in range(N_DIR_SHARDS)]
    if tier == "thorough":
        out = [{"part": "write-random", "k": k, "n": 16} for k in range(16)] + out
    return out


def _evaluate(case: dict, root: str = "") -> list[tuple[str, bool, bool, str]]:
    """ root: a scratch directory owned by the caller (one per shard), else a private one is made """
    if case["part"] == "write" and root:
        try:
            return _eval_write(case, root)
        finally:
            try:
                os.unlink(os.path.join(root, "input.json"))
            except OSError:
                pass
    workdir = tempfile.mkdtemp(prefix="verif-c20-", dir=root or None)
    try:
        if case["part"] == "write":
            return _eval_write(case, workdir)
        return _eval_dir(case, workdir)
    finally:
        shutil.rmtree(workdir, ignore_errors=True)


def _report(case: dict, run: Any, root: str = "") -> None:
    try:
        outcome = _evaluate(case, root)
    except Exception as err:  # pylint: disable=broad-except
        import traceback  # pylint: disable=import-outside-toplevel
        run.error(f"harness failure on {case!r}:\n{traceback.format_exc()}\n{err!r}")
        return
    for clause, okay, nontrivial, detail in outcome:
        run.check(clause, okay, case, nontrivial=nontrivial, detail=detail)


def run_shard(shard: dict, run: Any) -> None:
    _am()
    root = tempfile.mkdtemp(prefix="verif-c20-shard-")
    try:
        _run_shard(shard, run, root)
    finally:
        shutil.rmtree(root, ignore_errors=True)


def _run_shard(shard: dict, run: Any, root: str) -> None:
    part, k, n = shard["part"], shard["k"], shard["n"]
    if part == "write":
        bound = (4, 4) if run.tier == "quick" else (6, 6)
        for index, case in enumerate(_write_cases(*bound)):
            if index % n == k:
                if index % 500 == k and run.out_of_time():
                    return
                _report(case, run, root)
    elif part == "dir":
        for index, case in enumerate(_dir_cases()):
            if index % n == k:
                _report(case, run, root)
    else:  # seeded: two or three simultaneous faults, larger shapes
        rng = run.rng
        all_kinds = MODULE_KINDS + RECORD_LEVEL
        for _ in range(2500):
            if run.out_of_time():
                return
            nrec, nmod = rng.randint(1, 8), rng.randint(1, 8)
            chosen: dict[tuple[int, int], str] = {}
            for _ in range(rng.randint(2, 3)):
                kind = rng.choice(all_kinds)
                chosen[(rng.randrange(nrec), -1 if kind in RECORD_LEVEL else rng.randrange(nmod))] = kind
            faults = [[i, j, kind] for (i, j), kind in sorted(chosen.items())]   # one fault per position
            func, target = rng.choice(TARGETS)
            case = {"part": "write", "fn": func, "target": target, "nrec": nrec, "nmod": nmod,
                    "faults": faults, "pre": rng.choice(PRE_KINDS)}
            _report(case, run, root)


def replay(case: dict) -> list[str]:
    _am()
    return [f"{clause}: {detail}" for clause, okay, _nontrivial, detail in _evaluate(case) if not okay]
