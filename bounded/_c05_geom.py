"""Private helpers shared by bounded/C05.py, C06.py and C08.py.

Two things live here and nothing else:
  * the *specification side* geometry: a location is a set of bases of a record of length L,
    represented as a Python int used as a bit mask (bit i set <=> base i belongs to the location).
    An "arc" is given as a pair (s, e): s < e means the bases s..e-1, s >= e means the
    origin-spanning arc s..L-1,0..e-1 (s == e is only used for e == 0, see `arc_mask`).
  * builders that turn such pairs into REAL antismash objects (locations, genes, protoclusters,
    subregions, records).  antismash is imported lazily, inside the builders.

No function of antismash that is under test is used on the specification side.
"""
from __future__ import annotations

from typing import Any, Iterable, List, Optional, Sequence, Tuple

Arc = Sequence[int]          # (s, e)


# ---------------------------------------------------------------------------------------------
# specification side: sets of bases as bit masks
# ---------------------------------------------------------------------------------------------
def arc_mask(arc: Arc, length: int) -> int:
    """The set of bases of the arc (s, e) on a record of `length` bases."""
    start, end = arc[0], arc[1]
    if start < end:
        return ((1 << (end - start)) - 1) << start
    # origin-spanning: [start, length) + [0, end)
    return (((1 << (length - start)) - 1) << start) | ((1 << end) - 1)


def spans_origin(arc: Arc) -> bool:
    """True when the pair denotes a two-part, origin-spanning location."""
    return arc[0] >= arc[1]


def location_mask(location: Any) -> int:
    """The set of bases of a REAL Bio/antismash location (every part contributes its bases)."""
    mask = 0
    for part in location.parts:
        start, end = int(part.start), int(part.end)
        if end > start:
            mask |= ((1 << (end - start)) - 1) << start
    return mask


def location_parts(location: Any) -> List[List[int]]:
    """JSON-able description of a real location (for details in failure reports)."""
    return [[int(p.start), int(p.end)] for p in location.parts]


def is_contiguous(mask: int, length: int, circular: bool) -> bool:
    """True if the set of bases is one interval (line) / one arc or the whole ring (ring)."""
    if mask == 0:
        return False
    full = (1 << length) - 1
    if mask == full:
        return True
    # count the boundaries "base i in, base i+1 out"
    shifted = mask >> 1
    if circular:
        shifted |= (mask & 1) << (length - 1)
    return bin(mask & ~shifted & full).count("1") == 1


def components(count: int, related: Iterable[Tuple[int, int]]) -> List[List[int]]:
    """Connected components (sorted lists of indices, in order of smallest index) of an
    undirected relation over range(count): plain union-find."""
    parent = list(range(count))

    def find(i: int) -> int:
        while parent[i] != i:
            parent[i] = parent[parent[i]]
            i = parent[i]
        return i

    for a, b in related:
        ra, rb = find(a), find(b)
        if ra != rb:
            parent[max(ra, rb)] = min(ra, rb)
    groups: dict = {}
    for i in range(count):
        groups.setdefault(find(i), []).append(i)
    return [groups[root] for root in sorted(groups)]


# ---------------------------------------------------------------------------------------------
# builders of real objects
# ---------------------------------------------------------------------------------------------
def make_location(arc: Arc, length: int, strand: int = 1) -> Any:
    """A real FeatureLocation, or the two-part CompoundLocation of an origin-spanning arc
    (parts in biological order: upper part first on the forward strand, lower part first on
    the reverse strand)."""
    from antismash.common.secmet.locations import CompoundLocation, FeatureLocation
    start, end = arc[0], arc[1]
    if start < end:
        return FeatureLocation(start, end, strand)
    parts = [FeatureLocation(start, length, strand), FeatureLocation(0, end, strand)]
    if strand == -1:
        parts.reverse()
    return CompoundLocation(parts)


def make_record(length: int, circular: bool) -> Any:
    """A real, empty secmet Record of `length` bases."""
    from Bio.Seq import Seq
    from antismash.common.secmet.record import Record
    record = Record(Seq("A" * length))
    record.id = "rec"
    if circular:
        record.add_annotation("topology", "circular")
    return record


def make_gene(name: str, arc: Arc, strand: int, length: int, core_products: Sequence[str] = ()) -> Any:
    """A real CDSFeature; `core_products` adds a CORE gene function for each product."""
    from antismash.common.secmet.features import CDSFeature
    from antismash.common.secmet.qualifiers.gene_functions import GeneFunction
    gene = CDSFeature(make_location(arc, length, strand), locus_tag=name, translation="A")
    for product in core_products:
        gene.gene_functions.add(GeneFunction.CORE, tool="bounded", description="core", product=product)
    return gene


def make_protocluster(core: Arc, extent: Arc, product: str, length: int) -> Any:
    """A real Protocluster with the given core and surrounding location."""
    from antismash.common.secmet.features import Protocluster
    return Protocluster(make_location(core, length), make_location(extent, length),
                        tool="bounded", product=product, cutoff=1, neighbourhood_range=1,
                        detection_rule="rule")


def make_subregion(arc: Arc, label: str, length: int) -> Any:
    """A real SubRegion."""
    from antismash.common.secmet.features import SubRegion
    return SubRegion(make_location(arc, length), tool="bounded", label=label)


def describe_exception(err: BaseException) -> str:
    """Short text for an exception of the code under test."""
    return f"{type(err).__name__}: {str(err)[:300]}"
