"""Shared driver for the bounded stand-ins (B parts of DESIGN.md §2.10).

Runs under /venv/bin/python with cwd=/verif (so that `import bounded.Cxx` works) and with the
real antismash package importable from /repo (editable install).

A bounded module `bounded/Cxx.py` defines

    RULE: str                       how cases are enumerated and what counts as non-trivial
    def shards(tier, seed) -> list  JSON-able, picklable work items (one per parallel task)
    def run_shard(shard, run)       enumerate the shard; call run.check(...) per evaluated clause
    def replay(case) -> list[str]   re-run ONE stored case natively, return failed-clause texts ([] = ok)
    FINDING_CLASSES: dict[str, callable(clause, case) -> bool]
                                    predicates for the ids listed in /verif/known_findings.json

Everything a module reports is measured here: evaluations, distinct non-trivial cases (by key),
samples, failures (each carrying the JSON-able case needed for replay).
"""
from __future__ import annotations

import hashlib
import importlib
import json
import multiprocessing
import os
import random
import sys
import time
import traceback
from typing import Any, Callable, Iterable, Optional

VERIF = os.path.dirname(os.path.dirname(os.path.abspath(__file__)))
MAX_FAILS_PER_CLAUSE = 25
MAX_SAMPLES = 6


def _key_of(obj: Any) -> str:
    try:
        text = json.dumps(obj, sort_keys=True, default=repr)
    except Exception:  # pylint: disable=broad-except
        text = repr(obj)
    return hashlib.sha1(text.encode()).hexdigest()[:16]


class Run:
    """Accumulates the measured coverage of one shard (or of the merged run)."""

    def __init__(self, tier: str, seed: int, shard_index: int = 0, deadline: float = 0.0) -> None:
        self.tier = tier
        self.seed = seed
        self.shard_index = shard_index
        self.rng = random.Random((seed + 1) * 1_000_003 + shard_index)
        self.deadline = deadline
        self.evaluations = 0
        self.nontrivial_keys: set[str] = set()
        self.samples: list[Any] = []
        self.clauses: dict[str, dict[str, int]] = {}
        self.failures: list[dict[str, Any]] = []
        self.errors: list[str] = []
        self.truncated = False
        self.classifier: Optional[Callable[[str, Any], Optional[str]]] = None

    # -- reporting -----------------------------------------------------------------------
    def out_of_time(self) -> bool:
        """True once the soft deadline for this tier has passed (sampling loops should stop)."""
        if self.deadline and time.time() > self.deadline:
            self.truncated = True
            return True
        return False

    def check(self, clause: str, ok: bool, case: Any, *, nontrivial: bool = True,
              detail: str = "", key: Any = None) -> bool:
        """Record one evaluation of `clause` on `case` (a JSON-able description sufficient
        for `replay`). Returns ok."""
        self.evaluations += 1
        stats = self.clauses.setdefault(clause, {"evaluations": 0, "failures": 0})
        stats["evaluations"] += 1
        if nontrivial:
            self.nontrivial_keys.add(_key_of(case if key is None else key))
        if len(self.samples) < MAX_SAMPLES and (nontrivial or not self.samples):
            if self.rng.random() < 0.02 or len(self.samples) < 2:
                self.samples.append({"clause": clause, "case": case})
        if not ok:
            stats["failures"] += 1
            # classify BEFORE capping, so that many failures of a known finding at a clause cannot
            # crowd out an unknown failure at the same clause
            known = None
            if self.classifier is not None:
                try:
                    known = self.classifier(clause, case)
                except Exception:  # pylint: disable=broad-except
                    self.error(f"classifier crashed on {case!r}:\n{traceback.format_exc()}")
            mine = [f for f in self.failures if f["clause"] == clause and f.get("known") == known]
            if len(mine) < MAX_FAILS_PER_CLAUSE:
                self.failures.append({"clause": clause, "case": case, "detail": str(detail)[:2000], "known": known})
        return ok

    def count(self, n: int = 1) -> None:
        """Count evaluations that carry no separate clause record (inner comparisons)."""
        self.evaluations += n

    def error(self, text: str) -> None:
        """A harness problem (never a violation)."""
        if len(self.errors) < 20:
            self.errors.append(text[:4000])

    # -- (de)serialisation for the process pool -----------------------------------------
    def to_dict(self) -> dict[str, Any]:
        return {
            "evaluations": self.evaluations,
            "nontrivial_keys": sorted(self.nontrivial_keys),
            "samples": self.samples,
            "clauses": self.clauses,
            "failures": self.failures,
            "errors": self.errors,
            "truncated": self.truncated,
        }

    def merge(self, other: dict[str, Any]) -> None:
        self.evaluations += other["evaluations"]
        self.nontrivial_keys.update(other["nontrivial_keys"])
        for sample in other["samples"]:
            if len(self.samples) < MAX_SAMPLES:
                self.samples.append(sample)
        for clause, stats in other["clauses"].items():
            mine = self.clauses.setdefault(clause, {"evaluations": 0, "failures": 0})
            mine["evaluations"] += stats["evaluations"]
            mine["failures"] += stats["failures"]
        for failure in other["failures"]:
            same = [f for f in self.failures if f["clause"] == failure["clause"]
                    and f.get("known") == failure.get("known")]
            if len(same) < MAX_FAILS_PER_CLAUSE:
                self.failures.append(failure)
        self.errors.extend(other["errors"])
        self.truncated = self.truncated or other["truncated"]


def _worker(args: tuple[str, str, int, int, Any, float]) -> dict[str, Any]:
    prop, tier, seed, index, shard, deadline = args
    run = Run(tier, seed, index, deadline)
    try:
        module = importlib.import_module(f"bounded.{prop}")
        run.classifier = make_classifier(prop, module)
        module.run_shard(shard, run)
    except Exception:  # pylint: disable=broad-except
        run.error(f"shard {index} crashed:\n{traceback.format_exc()}")
    return run.to_dict()


def make_classifier(prop: str, module: Any) -> Callable[[str, Any], Optional[str]]:
    """clause, case -> id of the OPEN listed finding whose class contains the failure, else None"""
    findings = [f for f in load_findings(prop) if f.get("status") == "open"]
    classes: dict[str, Callable[[str, Any], bool]] = getattr(module, "FINDING_CLASSES", {})
    active = [(f["id"], classes[f["id"]]) for f in findings if f["id"] in classes]

    def classify(clause: str, case: Any) -> Optional[str]:
        for fid, pred in active:
            if pred(clause, case):
                return fid
        return None
    return classify


def load_findings(prop: str) -> list[dict[str, Any]]:
    with open(os.path.join(VERIF, "known_findings.json"), encoding="utf-8") as handle:
        data = json.load(handle)
    return [f for f in data["findings"] if f["property"] == prop]


def execute(prop: str, tier: str, seed: int, budget_s: float, processes: int = 16) -> dict[str, Any]:
    """Run the bounded stand-in of `prop`; returns a JSON-able result:
       coverage counts, unclassified failures, known findings seen, errors."""
    started = time.time()
    module = importlib.import_module(f"bounded.{prop}")
    shards = list(module.shards(tier, seed))
    deadline = started + budget_s if budget_s else 0.0
    total = Run(tier, seed)
    jobs = [(prop, tier, seed, i, shard, deadline) for i, shard in enumerate(shards)]
    if processes <= 1 or len(jobs) <= 1:
        results: Iterable[dict[str, Any]] = map(_worker, jobs)
        for res in results:
            total.merge(res)
    else:
        ctx = multiprocessing.get_context("fork")
        with ctx.Pool(min(processes, len(jobs))) as pool:
            for res in pool.imap_unordered(_worker, jobs):
                total.merge(res)

    # classify failures against the committed known findings
    findings = load_findings(prop)
    known_seen: dict[str, int] = {}
    known_samples: dict[str, list[Any]] = {}
    unknown: list[dict[str, Any]] = []
    for failure in total.failures:
        matched = failure.get("known")   # classified in the worker; a fixed entry suppresses nothing
        if matched and len(known_samples.setdefault(matched, [])) < 3:
            known_samples[matched].append({"clause": failure["clause"], "case": failure["case"],
                                           "detail": failure.get("detail", "")[:600]})
        if matched:
            known_seen[matched] = known_seen.get(matched, 0) + 1
        else:
            unknown.append(failure)

    # replay the stored witnesses of every listed finding (open: expected to fail still;
    # fixed: must pass, a failure is a violation)
    witness_status: dict[str, str] = {}
    for finding in findings:
        witness = finding.get("witness")
        if witness is None or finding.get("engine", "bounded") != "bounded":
            continue
        try:
            failed = module.replay(witness)
        except Exception:  # pylint: disable=broad-except
            total.error(f"replay of witness {finding['id']} crashed:\n{traceback.format_exc()}")
            continue
        if finding.get("status") == "open":
            witness_status[finding["id"]] = "still-fails" if failed else "no-longer-fails"
        else:
            witness_status[finding["id"]] = "regressed" if failed else "fixed-holds"
            if failed:
                unknown.append({"clause": f"fixed finding {finding['id']} regressed",
                                "case": witness, "detail": "; ".join(failed)[:2000]})

    return {
        "property": prop,
        "tier": tier,
        "seed": seed,
        "rule": getattr(module, "RULE", ""),
        "exhaustive": bool(getattr(module, "EXHAUSTIVE", {}).get(tier, False)) and not total.truncated,
        "shards": len(shards),
        "evaluations": total.evaluations,
        "distinct_nontrivial": len(total.nontrivial_keys),
        "samples": total.samples,
        "clauses": total.clauses,
        "failures": unknown,
        "known_seen": known_seen,
        "known_samples": known_samples,
        "witness_status": witness_status,
        "errors": total.errors,
        "truncated": total.truncated,
        "wall_s": round(time.time() - started, 2),
    }


def main(argv: Optional[list[str]] = None) -> int:
    """python -m bounded.common run Cxx quick 0 <budget_s> <out.json>
       python -m bounded.common replay Cxx <case.json>"""
    argv = list(sys.argv[1:] if argv is None else argv)
    if argv[0] == "run":
        prop, tier, seed, budget, out = argv[1], argv[2], int(argv[3]), float(argv[4]), argv[5]
        result = execute(prop, tier, seed, budget)
        with open(out, "w", encoding="utf-8") as handle:
            json.dump(result, handle, indent=1, default=repr)
        return 0
    if argv[0] == "replay":
        prop, path = argv[1], argv[2]
        with open(path, encoding="utf-8") as handle:
            data = json.load(handle)
        case = data.get("case", data)
        module = importlib.import_module(f"bounded.{prop}")
        failed = module.replay(case)
        print(json.dumps({"failed": failed}, indent=1))
        return 1 if failed else 0
    raise SystemExit(f"unknown command {argv[0]}")


if __name__ == "__main__":
    sys.exit(main())
