"""Bounded stand-in for C13 — HMM hit refinement keeps the best non-overlapping hits,
order-independently.

Functions of /repo exercised (real code, no mocks):
  antismash.common.hmmscan_refinement.refine_hmmscan_results (both modes), HMMResult.merge,
  remove_incomplete;  antismash.common.hmmer.remove_overlapping;
  antismash.common.hmm_rule_parser.cluster_prediction.filter_results / filter_result_multiple.

The oracles live in bounded/_c13_oracle.py (no antismash import there); its docstring states how
the statement was read where it is silent.  Hash-seed clauses run the same cases in child
interpreters (bounded/_c13_child.py) started with PYTHONHASHSEED = 0..7 (quick) / 0..15 (thorough).

Clause names: "<function family>/<clause of the statement>".  A failing evaluation that falls into
the class of a known finding is recorded under "<clause> [<finding id>]" so that the per-clause cap
of stored failures in the driver can never crowd an unclassified failure out.
"""
from __future__ import annotations

import itertools
import json
from fractions import Fraction
from typing import Any, Callable, Iterable, Iterator, Optional

from bounded import _c13_oracle as O

RULE = ("exhaustive: every SET of n hits drawn from a small alphabet = all intervals over a 4/5/6-point position grid "
        "x 2 profiles (3 for filter_results) x 2-3 scores; grids and profile lengths are chosen so that overlap == "
        "margin, span == 1.5 L, length == L/2 and L/3, equal starts, equal scores, identical coordinates, nested and "
        "chained hits all occur.  quick: refine_hmmscan_results n<=3 on q0 (6 points, 36,050 sets), q1/q2/q5 (5 points, "
        "10,700 each), q3 (4 points, 3 scores, 7,806), q6 (4 points, 4 (bitscore, e-value) pairs whose e-values tie or run "
        "opposite to the scores, 18,472) and n=4 on q4 (4 points, 10,626), both modes; "
        "hmmer.remove_overlapping n<=3 on h0/h1/h2 (36,050 + 2 x 10,700); filter_results/filter_result_multiple n<=3 on "
        "f0/f1/f2 (7,806 + 2,324 + 2,324) and n=4 on f3 (1,820); HMMResult.merge on 1,125 ordered pairs (450 with e-value 10**-score, 675 with equal / opposite e-values), remove_incomplete on 3,333 "
        "lists x thresholds.  For every set EVERY permutation of the input list is run (and the hits delivered as one "
        "QueryResult each); q0, h1 and f1 (n<=3) are also run in child processes with PYTHONHASHSEED 0..7.  thorough: "
        "n=4 over the 6-point grids (all permutations for r0s, 6 of 24 elsewhere), three scores for n<=3, seeds 0..15, "
        "and run.rng-seeded random sets of 4-6 hits over 3 profiles on random grids (12 orderings each).  A case is one "
        "(set, configuration[, mode]); it is non-trivial when at least two of its hits interact (share a residue, a "
        "profile or a start); distinct = distinct case.")
EXHAUSTIVE = {"quick": True, "thorough": False}

GROUPS = [frozenset(O.F_GROUP)]


# ------------------------------------------------------------------------------------------
# lazy imports of the code under test

def _refinement() -> Any:
    from antismash.common import hmmscan_refinement  # pylint: disable=import-outside-toplevel
    return hmmscan_refinement


def _hmmer() -> Any:
    from antismash.common import hmmer  # pylint: disable=import-outside-toplevel
    return hmmer


def _prediction() -> Any:
    from antismash.common.hmm_rule_parser import cluster_prediction  # pylint: disable=import-outside-toplevel
    return cluster_prediction


# ------------------------------------------------------------------------------------------
# fakes for the Biopython objects the functions read

class _HSP:
    """ what refine_hmmscan_results reads of a Bio.SearchIO HSP (hmmscan: query = protein, hit = profile) """
    __slots__ = ("query_id", "hit_id", "query_start", "query_end", "evalue", "bitscore")

    def __init__(self, query_id: str, hit_id: str, start: int, end: int, evalue: float, bitscore: float) -> None:
        self.query_id = query_id
        self.hit_id = hit_id
        self.query_start = start
        self.query_end = end
        self.evalue = evalue
        self.bitscore = bitscore


class _QueryResult:
    __slots__ = ("hsps", "id")

    def __init__(self, hsps: list, name: str = "q") -> None:
        self.hsps = hsps
        self.id = name


class _SearchHSP:
    """ what filter_results / filter_result_multiple read of a HSP (hmmsearch: query = profile, hit = gene).
        Real HSP objects compare and hash by identity (their address); `slot` plays the role of the
        address: objects created in input order iterate in that order inside a small set. """
    __slots__ = ("query_id", "hit_id", "hit_start", "hit_end", "bitscore", "evalue", "idx", "slot")

    def __init__(self, spec: list, idx: int, slot: int) -> None:
        self.query_id, self.hit_id, self.hit_start, self.hit_end = spec[0], spec[1], spec[2], spec[3]
        self.bitscore = float(spec[4])
        self.evalue = 10.0 ** -spec[4]
        self.idx = idx
        self.slot = slot

    def __hash__(self) -> int:
        return self.slot

    def __repr__(self) -> str:
        return f"HSP#{self.idx}"


# ------------------------------------------------------------------------------------------
# calling the real functions

def call_refine(hits: list[list], lens: dict[str, int], mode: int, *, split: bool = False) -> Any:
    """ -> list of [profile, start, end, evalue, bitscore] for the single protein, or {"exception": text} """
    module = _refinement()
    hsps = [_HSP("cds", h[0], h[1], h[2], O.r_evalue(h), float(h[3])) for h in hits]
    results = [_QueryResult([hsp]) for hsp in hsps] if split else [_QueryResult(hsps)]
    try:
        refined = module.refine_hmmscan_results(results, dict(lens), neighbour_mode=bool(mode))
        if not isinstance(refined, dict) or set(refined) - {"cds"}:
            return {"exception": f"unexpected result {refined!r}"[:300]}
        if "cds" in refined and not refined["cds"]:
            return {"exception": "empty list stored for the protein"}
        return [[r.hit_id, r.query_start, r.query_end, r.evalue, r.bitscore] for r in refined.get("cds", [])]
    except Exception as err:  # pylint: disable=broad-except
        return {"exception": f"{type(err).__name__}: {err}"[:300]}


def call_hmmer(hits: list[list], cutoffs: dict[str, int], limit: int) -> Any:
    module = _hmmer()
    try:
        objs = [module.HmmerHit(location=f"[{h[1]}:{h[2]}]", label=h[0], locus_tag="cds", domain=h[0],
                                evalue=10.0 ** -(h[3] / 10), score=float(h[3]), identifier=h[0], description="d",
                                protein_start=h[1], protein_end=h[2], translation="M" * (h[2] - h[1]))
                for h in hits]
        kept = module.remove_overlapping(objs, {k: float(v) for k, v in cutoffs.items()}, overlap_limit=limit)
        return [[k.identifier, k.protein_start, k.protein_end, int(k.score) if float(k.score).is_integer() else k.score]
                for k in kept]
    except Exception as err:  # pylint: disable=broad-except
        return {"exception": f"{type(err).__name__}: {err}"[:300]}


def call_filters(hits: list[list], order: Iterable[int]) -> dict[str, Any]:
    """ Runs, on the hits in the given order (indices into `hits`),
          first  = filter_results,  both = filter_result_multiple after it (as find_hmmer_hits does),
          multi  = filter_result_multiple alone.
        Each value is the sorted list of surviving indices or an error text. """
    module = _prediction()
    out: dict[str, Any] = {}

    def build() -> tuple[list, dict[str, list]]:
        objs = [_SearchHSP(hits[i], i, slot) for slot, i in enumerate(order)]
        by_id: dict[str, list] = {}
        for obj in objs:
            by_id.setdefault(obj.hit_id, []).append(obj)
        return objs, by_id

    def survivors(results: Any, by_id: Any) -> Any:
        flat = [obj.idx for obj in results]
        grouped = [obj.idx for objs in by_id.values() for obj in objs]
        if sorted(flat) != sorted(grouped):
            return f"results {flat} and results_by_id {grouped} disagree"
        if any(obj.hit_id != cds for cds, objs in by_id.items() for obj in objs):
            return "hit stored under another gene"
        return sorted(flat)

    try:
        results, by_id = build()
        results, by_id = module.filter_results(results, by_id, GROUPS)
        out["first"] = survivors(results, by_id)
        results, by_id = module.filter_result_multiple(results, by_id)
        out["both"] = survivors(results, by_id)
        if isinstance(out["both"], list) and [r.hit_start for r in results] != sorted(r.hit_start for r in results):
            out["both"] = "results not ordered by position"
    except Exception as err:  # pylint: disable=broad-except
        out.setdefault("first", f"{type(err).__name__}: {err}"[:300])
        out.setdefault("both", f"{type(err).__name__}: {err}"[:300])
    try:
        results, by_id = build()
        results, by_id = module.filter_result_multiple(results, by_id)
        out["multi"] = survivors(results, by_id)
    except Exception as err:  # pylint: disable=broad-except
        out["multi"] = f"{type(err).__name__}: {err}"[:300]
    return out


# ------------------------------------------------------------------------------------------
# known findings: classes of inputs per clause

def _base(clause: str) -> str:
    return clause.split(" [")[0]


def _observed(case: Any, key: str) -> Any:
    obs = case.get("observed") if isinstance(case, dict) else None
    return obs.get(key) if isinstance(obs, dict) else None


def _is_refine(case: Any) -> bool:
    return isinstance(case, dict) and case.get("fn") == "refine"


def _f1(clause: str, case: Any) -> bool:
    """ HMMResult.merge of two same-profile hits where the later-starting one ends first """
    return (_base(clause) == "merge/spans-both-with-best-score" and isinstance(case, dict)
            and case.get("fn") == "merge" and O.r_shrinkable_pair([case["x"], case["y"]]))


def _f2(clause: str, case: Any) -> bool:
    """ every returned hit that is neither an input nor a spanning merge is a merge cut back to the
        end of a nested same-profile fragment """
    if _base(clause) != "refine/returned-is-input-or-spanning-merge" or not _is_refine(case):
        return False
    out = _observed(case, "out")
    if not isinstance(out, list):
        return False
    cands = {(c["p"], c["a"], c["b"], c["e"], c["s"]) for c in O._merge_candidates(case["hits"], case["lens"])  # pylint: disable=protected-access
             if c["valid"]}
    bad = [o for o in out if tuple(o) not in cands]
    return bool(bad) and all(O.r_shrunk_merge(case["hits"], o) for o in bad)


def _f5(clause: str, case: Any) -> bool:
    """ every input hit that vanished without justification lost to an at-least-as-good overlapping competitor
        which is itself absent from the observed output for an accountable reason (justified by the output,
        or beaten in turn): the winner of the comparison was replaced / filtered afterwards """
    if _base(clause) != "refine/dropped-only-if-justified" or not _is_refine(case):
        return False
    idxs = _observed(case, "unjustified")
    out = _observed(case, "out")
    if not isinstance(idxs, list) or not idxs or not isinstance(out, list):
        return False
    return all(O.r_lost_to_vanished_competitor(case["hits"], case["lens"], out, i) for i in idxs)


def _f6(clause: str, case: Any) -> bool:
    """ the returned pair overlapping beyond its margin had another input hit starting between them """
    if _base(clause) != "refine/no-two-overlap-beyond-margin" or not _is_refine(case):
        return False
    out = _observed(case, "out")
    return isinstance(out, list) and O.r_pair_with_hit_between(case["hits"], case["lens"], out)


def _f7(clause: str, case: Any) -> bool:
    """ two distinct input hits with the same start: sorted(set, key=start) leaves their order to the set """
    return (_base(clause) in ("refine/same-for-every-input-order", "refine/same-for-every-hash-seed")
            and _is_refine(case) and O.r_has_equal_starts(case["hits"]))


def _is_filter(case: Any) -> bool:
    return isinstance(case, dict) and case.get("fn") == "filter"


def _f8(clause: str, case: Any) -> bool:
    """ filter_results: two hits share the best score of one overlapping group """
    return (_base(clause) in ("filter/same-for-every-input-order (filter_results)",
                              "filter/same-for-every-input-order (both filters)")
            and _is_filter(case) and O.f_tied_best_in_component(case["hits"]))


def _f9(clause: str, case: Any) -> bool:
    """ filter_result_multiple: two hits of one profile in one gene share the best score """
    return (_base(clause) in ("filter/same-for-every-input-order (filter_result_multiple)",
                              "filter/same-for-every-input-order (both filters)")
            and _is_filter(case) and O.f_tied_best_in_profile(case["hits"]))


def _is_hmmer(case: Any) -> bool:
    return isinstance(case, dict) and case.get("fn") == "hmmer"


def _f10(clause: str, case: Any) -> bool:
    """ hmmer.remove_overlapping: a hit with the smallest start is shorter than overlap_limit and the
        only defect of the result is that hits are returned twice """
    if _base(clause) != "hmmer/returned-is-input" or not _is_hmmer(case):
        return False
    out = _observed(case, "out")
    if not isinstance(out, list) or not O.h_short_first(case["hits"], case["limit"]):
        return False
    given = {tuple(h) for h in case["hits"]}
    return len({tuple(o) for o in out}) < len(out) and all(tuple(o) in given for o in out)


def _f11(clause: str, case: Any) -> bool:
    """ hmmer.remove_overlapping: the results differ only in repeated hits (see C13-F10) and in the
        order of two equal-start hits of which one is shorter than overlap_limit """
    if _base(clause) != "hmmer/same-for-every-input-order" or not _is_hmmer(case):
        return False
    outs = _observed(case, "outs")
    if not isinstance(outs, list) or any(not isinstance(o, list) for o in outs):
        return False
    if not (O.h_short_first(case["hits"], case["limit"]) or O.h_equal_start_short(case["hits"], case["limit"])):
        return False
    canon = {json.dumps(sorted({tuple(h) for h in out})) for out in outs}
    positions = all([h[1] for h in out] == sorted(h[1] for h in out) for out in outs)
    return len(canon) == 1 and positions


FINDING_CLASSES: dict[str, Callable[[str, Any], bool]] = {
    "C13-F1": _f1,
    "C13-F2": _f2,
    # C13-F3 / C13-F4 (hits lost through the cut-back merge / the forgotten chain) were consequences of
    # repaired defects at the drop clause; they have no input class of their own any more: a regression
    # shows up unclassified at refine/dropped-only-if-justified and in the replay of their witnesses
    "C13-F5": _f5,
    "C13-F6": _f6,
    "C13-F7": _f7,
    "C13-F8": _f8,
    "C13-F9": _f9,
    "C13-F10": _f10,
    "C13-F11": _f11,
}


def classify(clause: str, case: Any) -> Optional[str]:
    for fid, pred in FINDING_CLASSES.items():
        try:
            if pred(clause, case):
                return fid
        except Exception:  # pylint: disable=broad-except
            continue
    return None


# ------------------------------------------------------------------------------------------
# recording

class _Collector:
    """ stands in for common.Run inside replay() """
    def __init__(self) -> None:
        self.failed: list[str] = []

    def check(self, clause: str, ok: bool, case: Any, *, nontrivial: bool = True, detail: str = "",
              key: Any = None) -> bool:
        del case, nontrivial, key
        if not ok:
            self.failed.append(f"{clause}: {detail}"[:600])
        return ok

    def error(self, text: str) -> None:
        self.failed.append(f"harness error: {text}"[:600])

    def out_of_time(self) -> bool:
        return False


def _emit(run: Any, clause: str, problems: list[tuple[str, dict[str, Any]]], case: dict[str, Any],
          nontrivial: bool, key: str) -> None:
    """ one run.check for (clause, case); problems = [(detail, observed)] for every failing observation.
        An unclassified problem takes precedence over one that falls into a known class. """
    if not problems:
        run.check(clause, True, case, nontrivial=nontrivial, key=key)
        return
    chosen: Optional[tuple[str, dict[str, Any], str]] = None
    for detail, observed in problems:
        failing = dict(case)
        failing["observed"] = dict(observed, clause=clause)
        fid = classify(clause, failing)
        if fid is None:
            chosen = (clause, failing, detail)
            break
        if chosen is None:
            chosen = (f"{clause} [{fid}]", failing, detail)
    assert chosen is not None
    run.check(chosen[0], False, chosen[1], nontrivial=nontrivial, detail=chosen[2], key=key)


def _perms(items: list, how: str, rng: Any = None) -> list[list]:
    if how == "all" or len(items) <= 3:
        return [list(p) for p in itertools.permutations(items)]
    if how == "some":
        n = len(items)
        picks = [items, items[::-1], items[1:] + items[:1], items[2:] + items[:2],
                 [items[i] for i in ([1, 0] + list(range(2, n)))], items[n // 2:][::-1] + items[:n // 2]]
        seen, out = set(), []
        for p in picks:
            if tuple(map(tuple, p)) not in seen:
                seen.add(tuple(map(tuple, p)))
                out.append(list(p))
        return out
    # "random": identity, reverse and 10 seeded shuffles
    out = [list(items), list(items[::-1])]
    for _ in range(10):
        p = list(items)
        rng.shuffle(p)
        out.append(p)
    return out


# ------------------------------------------------------------------------------------------
# R: refine_hmmscan_results

R_CLAUSES = ["refine/ordered-by-position", "refine/no-two-overlap-beyond-margin",
             "refine/returned-is-input-or-spanning-merge", "refine/dropped-only-if-justified"]


def check_refine(run: Any, hits: list[list], lens: dict[str, int], mode: int, perm_mode: str,
                 rng: Any = None) -> None:
    case = {"fn": "refine", "lens": lens, "hits": hits, "mode": mode}
    key = "R" + json.dumps([sorted(lens.items()), hits, mode])
    nontrivial = O.r_nontrivial(hits)
    outs: dict[str, Any] = {}
    for perm in _perms(hits, perm_mode, rng):
        out = call_refine(perm, lens, mode)
        outs.setdefault(json.dumps(out), out)
    if len(hits) > 1:
        # the same hits delivered as one QueryResult per hit
        out = call_refine(hits, lens, mode, split=True)
        outs.setdefault(json.dumps(out), out)
    exceptions = [o for o in outs.values() if isinstance(o, dict)]
    _emit(run, "refine/no-unexpected-exception", [(o["exception"], {"out": o}) for o in exceptions], case,
          nontrivial, key)
    problems: dict[str, list[tuple[str, dict[str, Any]]]] = {clause: [] for clause in R_CLAUSES}
    for out in outs.values():
        if isinstance(out, dict):
            continue
        failed = O.refine_oracle(hits, lens, out)
        unjustified = [int(x) for x in failed.pop("_unjustified", "").split(",") if x]
        for clause, detail in failed.items():
            observed: dict[str, Any] = {"out": out}
            if clause == "refine/dropped-only-if-justified":
                observed["unjustified"] = unjustified
            problems.setdefault(clause, []).append((detail, observed))
    for clause, found in problems.items():
        _emit(run, clause, found, case, nontrivial, key)
    distinct = list(outs.values())
    _emit(run, "refine/same-for-every-input-order",
          [] if len(distinct) == 1 else [(f"{len(distinct)} different results: {distinct[:3]}", {"outs": distinct[:4]})],
          case, nontrivial, key)


def _run_r(shard: dict[str, Any], run: Any) -> None:
    cfg = O.R_CONFIGS[shard["cfg"]]
    for n, hits in enumerate(O.r_cases(shard["cfg"], shard["sizes"], shard["chunk"], shard["of"])):
        if n % 128 == 0 and run.out_of_time():
            return
        for mode in (0, 1):
            check_refine(run, hits, cfg["lens"], mode, shard["perms"])


def _run_random_r(shard: dict[str, Any], run: Any) -> None:
    rng = run.rng
    for n in range(shard["count"]):
        if n % 32 == 0 and run.out_of_time():
            return
        npos = rng.choice([6, 7, 8])
        pos = sorted(rng.sample(range(0, 61), npos))
        names = ["A", "B", rng.choice(["C", "regulatorC"])]
        lens = {name: rng.choice([12, 20, 30, 45, 50, 100]) for name in names}
        ivs = O.intervals(pos)
        hits_set = set()
        discordant = rng.random() < 0.5
        for _ in range(rng.choice([4, 5, 5, 6])):
            a, b = rng.choice(ivs)
            hit = (rng.choice(names[:rng.choice([1, 2, 3])]), a, b, rng.choice([1, 2, 3]))
            if discordant:  # e-values drawn independently of the scores (ties and opposite orders included)
                hit += (rng.choice([0.0, 1e-9, 1e-5, 1e-2]),)
            hits_set.add(hit)
        hits = [list(h) for h in sorted(hits_set)]
        for mode in (0, 1):
            check_refine(run, hits, lens, mode, "random", rng)


# ------------------------------------------------------------------------------------------
# H: hmmer.remove_overlapping

H_CLAUSES = ["hmmer/ordered-by-position", "hmmer/returned-is-input", "hmmer/no-two-overlap-beyond-margin",
             "hmmer/dropped-only-if-justified"]


def check_hmmer(run: Any, hits: list[list], cutoffs: dict[str, int], limit: int, perm_mode: str,
                rng: Any = None) -> None:
    case = {"fn": "hmmer", "cutoffs": cutoffs, "limit": limit, "hits": hits}
    key = "H" + json.dumps([sorted(cutoffs.items()), limit, hits])
    nontrivial = O.h_nontrivial(hits)
    outs: dict[str, Any] = {}
    for perm in _perms(hits, perm_mode, rng):
        out = call_hmmer(perm, cutoffs, limit)
        outs.setdefault(json.dumps(out), out)
    _emit(run, "hmmer/no-unexpected-exception",
          [(o["exception"], {"out": o}) for o in outs.values() if isinstance(o, dict)], case, nontrivial, key)
    problems: dict[str, list[tuple[str, dict[str, Any]]]] = {clause: [] for clause in H_CLAUSES}
    for out in outs.values():
        if isinstance(out, dict):
            continue
        for clause, detail in O.hmmer_oracle(hits, cutoffs, limit, out).items():
            problems.setdefault(clause, []).append((detail, {"out": out}))
    for clause, found in problems.items():
        _emit(run, clause, found, case, nontrivial, key)
    distinct = list(outs.values())
    _emit(run, "hmmer/same-for-every-input-order",
          [] if len(distinct) == 1 else [(f"{len(distinct)} different results: {distinct[:3]}", {"outs": distinct[:4]})],
          case, nontrivial, key)


def _run_h(shard: dict[str, Any], run: Any) -> None:
    cfg = O.H_CONFIGS[shard["cfg"]]
    for n, hits in enumerate(O.h_cases(shard["cfg"], shard["sizes"], shard["chunk"], shard["of"])):
        if n % 128 == 0 and run.out_of_time():
            return
        check_hmmer(run, hits, cfg["cutoffs"], cfg["limit"], shard["perms"])


# ------------------------------------------------------------------------------------------
# F: filter_results / filter_result_multiple

def check_filter(run: Any, hits: list[list], perm_mode: str, rng: Any = None) -> None:
    case = {"fn": "filter", "group": O.F_GROUP, "hits": hits}
    key = "F" + json.dumps(hits)
    nontrivial = O.f_nontrivial(hits)
    seen: dict[str, dict[str, Any]] = {"first": {}, "both": {}, "multi": {}}
    for order in _perms(list(range(len(hits))), perm_mode, rng):
        res = call_filters(hits, order)
        for stage, value in res.items():
            seen[stage].setdefault(json.dumps(value), value)
    errors = [(str(v), {"stage": stage}) for stage, values in seen.items() for v in values.values()
              if not isinstance(v, list)]
    _emit(run, "filter/no-unexpected-exception", errors, case, nontrivial, key)
    problems: dict[str, list[tuple[str, dict[str, Any]]]] = {
        "filter/survivors-are-input-hits": [], "filter/no-competition-without-equivalent-profiles": [],
        "filter/dropped-only-if-justified": [], "filter/best-of-each-overlap-group-survives": [],
        "filter/best-of-each-profile-survives": []}
    for kept in seen["first"].values():
        if not isinstance(kept, list):
            continue
        for clause, detail in O.filter_results_oracle(hits, O.F_GROUP, kept).items():
            problems.setdefault(clause, []).append((detail, {"stage": "first", "kept": kept}))
        # what filter_result_multiple must make of these survivors
    for stage in ("both", "multi"):
        for kept in seen[stage].values():
            if not isinstance(kept, list):
                continue
            if stage == "multi":
                failed = O.filter_multiple_oracle(hits, kept)
            else:
                # relative to some observed survivor set of the first filter
                failed = {}
                firsts = [f for f in seen["first"].values() if isinstance(f, list)]
                verdicts = []
                for first in firsts:
                    sub = [hits[i] for i in first]
                    if not set(kept) <= set(first):
                        verdicts.append({"filter/survivors-are-input-hits": f"{kept} not among {first}"})
                        continue
                    verdicts.append(O.filter_multiple_oracle(sub, [first.index(i) for i in kept]))
                if verdicts and all(verdicts):
                    failed = verdicts[0]
            for clause, detail in failed.items():
                problems.setdefault(clause, []).append((detail, {"stage": stage, "kept": kept}))
    for clause, found in problems.items():
        _emit(run, clause, found, case, nontrivial, key)
    for stage, label in (("first", "filter_results"), ("multi", "filter_result_multiple"), ("both", "both filters")):
        distinct = list(seen[stage].values())
        _emit(run, f"filter/same-for-every-input-order ({label})",
              [] if len(distinct) == 1 else [(f"survivors differ: {distinct[:4]}", {"stage": stage, "outs": distinct[:4]})],
              case, nontrivial, key)


def _run_f(shard: dict[str, Any], run: Any) -> None:
    for n, hits in enumerate(O.f_cases(shard["cfg"], shard["chunk"], shard["of"], shard.get("sizes"))):
        if n % 128 == 0 and run.out_of_time():
            return
        check_filter(run, hits, shard["perms"])


# ------------------------------------------------------------------------------------------
# K: kernels with a contract of their own (HMMResult.merge, remove_incomplete)

def check_merge(run: Any, x: list, y: list) -> None:
    case = {"fn": "merge", "x": x, "y": y}
    module = _refinement()
    want = [x[0], min(x[1], y[1]), max(x[2], y[2]), min(O.r_evalue(x), O.r_evalue(y)), float(max(x[3], y[3]))]
    problems = []
    for first, second in ((x, y), (y, x)):
        try:
            one = module.HMMResult(first[0], first[1], first[2], O.r_evalue(first), float(first[3]))
            two = module.HMMResult(second[0], second[1], second[2], O.r_evalue(second), float(second[3]))
            merged = one.merge(two)
            got = [merged.hit_id, merged.query_start, merged.query_end, merged.evalue, merged.bitscore]
        except Exception as err:  # pylint: disable=broad-except
            got = [f"{type(err).__name__}: {err}"]
        if got != want:
            problems.append((f"{first}.merge({second}) = {got}, spanning merge is {want}", {"out": got}))
    nontrivial = [x[1], x[2]] != [y[1], y[2]]
    _emit(run, "merge/spans-both-with-best-score", problems, case, nontrivial, "M" + json.dumps([x, y]))


K_LENS = {"A": 30, "regulatorB": 60}
K_THRESHOLDS = [[1, 2, 1, 3], [3, 4, 1, 2], [1, 3, 1, 3]]   # threshold num/den, fallback num/den


def check_incomplete(run: Any, doms: list[list], thr: list[int]) -> None:
    """ doms: [profile, start, end] in the order handed to remove_incomplete """
    case = {"fn": "incomplete", "lens": K_LENS, "doms": doms, "thr": thr}
    module = _refinement()
    threshold, fallback = Fraction(thr[0], thr[1]), Fraction(thr[2], thr[3])
    problems = []
    try:
        objs = [module.HMMResult(d[0], d[1], d[2], 0.1, 1.0) for d in doms]
        res = module.remove_incomplete(list(objs), dict(K_LENS), threshold=thr[0] / thr[1], fallback=thr[2] / thr[3])
        idx: Optional[list[int]] = []
        pos = 0
        for item in res:
            while pos < len(objs) and objs[pos] is not item:
                pos += 1
            if pos == len(objs):
                idx = None
                break
            assert idx is not None
            idx.append(pos)
            pos += 1
        verdict = O.incomplete_oracle(doms, K_LENS, threshold, fallback, idx)
        if verdict:
            problems.append((verdict, {"kept": idx}))
    except Exception as err:  # pylint: disable=broad-except
        problems.append((f"{type(err).__name__}: {err}", {"kept": None}))
    _emit(run, "incomplete/dropped-only-with-more-complete-alternative", problems, case, len(doms) > 1,
          "I" + json.dumps([doms, thr]))


def _k_merge_cases() -> Iterator[tuple[list, list]]:
    ivs = O.intervals([0, 10, 20, 30, 40, 50])
    for (a, b), (c, d) in itertools.product(ivs, ivs):
        for s, t in ((1, 2), (2, 2)):
            yield ["A", a, b, s], ["A", c, d, t]
        # e-values that do not follow the bitscores: equal (both 0 / both 1e-5) and opposite to the scores
        for (s, e), (t, f) in (((1, 0.0), (2, 0.0)), ((1, 1e-5), (2, 1e-5)), ((1, 1e-9), (2, 1e-3))):
            yield ["A", a, b, s, e], ["A", c, d, t, f]


def _k_incomplete_cases() -> Iterator[tuple[list[list], list[int]]]:
    # lengths 10 (1/3 of A), 15 (1/2 of A), 20, 30 (1/2 of B), 40, 45 (3/4 of B), 60
    alphabet = [["A", 0, 10], ["A", 0, 15], ["A", 0, 16], ["A", 5, 25], ["regulatorB", 0, 20],
                ["regulatorB", 0, 30], ["regulatorB", 10, 50], ["regulatorB", 0, 45], ["regulatorB", 0, 60],
                ["A", 10, 20], ["regulatorB", 2, 22]]
    for size in (1, 2, 3):
        for doms in itertools.permutations(alphabet, size):
            for thr in K_THRESHOLDS:
                yield [list(d) for d in doms], thr


def _run_k(shard: dict[str, Any], run: Any) -> None:
    del shard
    for x, y in _k_merge_cases():
        check_merge(run, x, y)
    for n, (doms, thr) in enumerate(_k_incomplete_cases()):
        if n % 256 == 0 and run.out_of_time():
            return
        check_incomplete(run, doms, thr)


# ------------------------------------------------------------------------------------------
# S: the same cases under different PYTHONHASHSEED values (child interpreters)

def _seed_job_cases(job: dict[str, Any], chunk: int, nchunks: int) -> Iterator[dict[str, Any]]:
    if job["fam"] == "R":
        cfg = O.R_CONFIGS[job["cfg"]]
        for hits in O.r_cases(job["cfg"], job["sizes"], chunk, nchunks):
            for mode in (0, 1):
                yield {"fn": "refine", "lens": cfg["lens"], "hits": hits, "mode": mode}
    elif job["fam"] == "H":
        cfg = O.H_CONFIGS[job["cfg"]]
        for hits in O.h_cases(job["cfg"], job["sizes"], chunk, nchunks):
            yield {"fn": "hmmer", "cutoffs": cfg["cutoffs"], "limit": cfg["limit"], "hits": hits}
    elif job["fam"] == "F":
        for hits in O.f_cases(job["cfg"], chunk, nchunks, job.get("sizes")):
            yield {"fn": "filter", "group": O.F_GROUP, "hits": hits}
    elif job["fam"] == "case":
        yield job["case"]
    else:
        raise ValueError(f"unknown job {job}")


def _seed_eval(case: dict[str, Any]) -> str:
    if case["fn"] == "refine":
        return json.dumps(call_refine(case["hits"], case["lens"], case["mode"]))
    if case["fn"] == "hmmer":
        return json.dumps(call_hmmer(case["hits"], case["cutoffs"], case["limit"]))
    if case["fn"] == "filter":
        return json.dumps(call_filters(case["hits"], range(len(case["hits"]))), sort_keys=True)
    raise ValueError(f"no seed evaluation for {case['fn']}")


def child_eval(arg: dict[str, Any]) -> list[list[str]]:
    """ runs in the child interpreter """
    return [[_seed_eval(case) for case in _seed_job_cases(job, arg["chunk"], arg["of"])] for job in arg["jobs"]]


SEED_CLAUSE = {"refine": "refine/same-for-every-hash-seed", "hmmer": "hmmer/same-for-every-hash-seed",
               "filter": "filter/same-for-every-hash-seed"}


def _seed_nontrivial(case: dict[str, Any]) -> bool:
    if case["fn"] == "refine":
        return O.r_nontrivial(case["hits"])
    if case["fn"] == "hmmer":
        return O.h_nontrivial(case["hits"])
    return O.f_nontrivial(case["hits"])


def _seed_key(case: dict[str, Any]) -> str:
    if case["fn"] == "refine":
        return "R" + json.dumps([sorted(case["lens"].items()), case["hits"], case["mode"]])
    if case["fn"] == "hmmer":
        return "H" + json.dumps([sorted(case["cutoffs"].items()), case["limit"], case["hits"]])
    return "F" + json.dumps(case["hits"])


def _run_s(shard: dict[str, Any], run: Any) -> None:
    from bounded._c13_spawn import run_child  # pylint: disable=import-outside-toplevel
    arg = {"jobs": shard["jobs"], "chunk": shard["chunk"], "of": shard["of"]}
    per_seed: dict[int, list[list[str]]] = {}
    for seed in shard["seeds"]:
        if run.out_of_time():
            if len(per_seed) < 2:
                return
            break  # compare the seeds evaluated so far
        try:
            per_seed[seed] = run_child("bounded.C13", "child_eval", arg, seed)
        except Exception as err:  # pylint: disable=broad-except
            run.error(f"hash-seed child {seed} of shard {shard['chunk']}: {err}")
            return
    seeds = list(per_seed)
    for j, job in enumerate(shard["jobs"]):
        for k, case in enumerate(_seed_job_cases(job, shard["chunk"], shard["of"])):
            by_out: dict[str, list[int]] = {}
            for seed in seeds:
                by_out.setdefault(per_seed[seed][j][k], []).append(seed)
            problems = []
            if len(by_out) > 1:
                problems.append((f"results by seed: {dict((o, s) for o, s in list(by_out.items())[:3])}",
                                 {"seeds": {o: s for o, s in list(by_out.items())[:4]}}))
            _emit(run, SEED_CLAUSE[case["fn"]], problems, case, _seed_nontrivial(case), _seed_key(case))


# ------------------------------------------------------------------------------------------
# driver interface

def shards(tier: str, seed: int) -> list:
    del seed
    # import the code under test once, before the driver forks its workers
    _refinement()
    _hmmer()
    _prediction()
    out: list[dict[str, Any]] = []

    def split(fam: str, cfg: str, sizes: Optional[list[int]], parts: int, perms: str) -> list[dict[str, Any]]:
        return [{"fam": fam, "cfg": cfg, "sizes": sizes, "chunk": i, "of": parts, "perms": perms} for i in range(parts)]

    if tier == "quick":
        # the hash-seed shards first: they wait for eight child interpreters each
        jobs = [{"fam": "R", "cfg": "q0", "sizes": [1, 2, 3]}, {"fam": "R", "cfg": "q6", "sizes": [2]},
                {"fam": "H", "cfg": "h1", "sizes": [1, 2, 3]},
                {"fam": "F", "cfg": "f1", "sizes": [1, 2, 3]}]
        out += [{"fam": "S", "jobs": jobs, "chunk": i, "of": 4, "seeds": list(range(8))} for i in range(4)]
        out += split("R", "q0", [1, 2, 3], 8, "all")
        out += split("R", "q1", [1, 2, 3], 2, "all") + split("R", "q2", [1, 2, 3], 2, "all")
        out += split("R", "q3", [1, 2, 3], 2, "all") + split("R", "q4", [4], 4, "all")
        out += split("R", "q5", [1, 2, 3], 2, "all") + split("R", "q6", [1, 2, 3], 4, "all")
        out += split("H", "h0", [1, 2, 3], 4, "all") + split("H", "h1", [1, 2, 3], 2, "all")
        out += split("H", "h2", [1, 2, 3], 2, "all")
        out += split("F", "f0", None, 2, "all") + split("F", "f1", [1, 2, 3], 1, "all") + split("F", "f3", None, 1, "all")
        out += split("F", "f2", None, 1, "all")
        out += [{"fam": "K"}]
        return out
    # thorough (cheap exhaustive families and the sampled one first: a truncated run starves the big ones last)
    jobs = [{"fam": "R", "cfg": "r0", "sizes": [1, 2, 3]}, {"fam": "R", "cfg": "r2", "sizes": [1, 2, 3]},
            {"fam": "R", "cfg": "q6", "sizes": [2, 3]},
            {"fam": "H", "cfg": "h3", "sizes": [1, 2, 3]}, {"fam": "H", "cfg": "h4", "sizes": [1, 2, 3]},
            {"fam": "F", "cfg": "f0"}, {"fam": "F", "cfg": "f1"}]
    out += [{"fam": "S", "jobs": jobs, "chunk": i, "of": 16, "seeds": list(range(16))} for i in range(16)]
    out += [{"fam": "K"}]
    out += split("F", "f0", [1, 2, 3, 4], 4, "all") + split("F", "f1", [1, 2, 3, 4, 5], 8, "all")
    out += split("F", "f2", [1, 2, 3, 4], 1, "all")
    for cfg in ("h3", "h4"):
        out += split("H", cfg, [1, 2, 3], 4, "all")
    out += split("H", "h2", [1, 2, 3, 4], 2, "all")
    out += [{"fam": "X", "count": 20000} for _ in range(16)]
    for cfg in ("r0", "r1", "r2"):
        out += split("R", cfg, [1, 2, 3], 6, "all")
    for cfg in ("q1", "q2", "q3", "q5"):
        out += split("R", cfg, [1, 2, 3, 4], 2, "all")
    out += split("R", "q6", [1, 2, 3], 4, "all") + split("R", "r6", [1, 2, 3], 12, "all")
    for cfg in ("h3", "h4"):
        out += split("H", cfg, [4], 12, "some")
    out += split("R", "r5", [1, 2, 3, 4], 12, "some")
    out += split("R", "r1s", [4], 10, "some") + split("R", "r2s", [4], 10, "some") + split("R", "r0s", [4], 24, "all")
    return out


def run_shard(shard: dict[str, Any], run: Any) -> None:
    fam = shard["fam"]
    if fam == "R":
        _run_r(shard, run)
    elif fam == "H":
        _run_h(shard, run)
    elif fam == "F":
        _run_f(shard, run)
    elif fam == "K":
        _run_k(shard, run)
    elif fam == "S":
        _run_s(shard, run)
    elif fam == "X":
        _run_random_r(shard, run)
    else:
        run.error(f"unknown shard {shard}")


def replay(case: dict[str, Any]) -> list[str]:
    """ re-evaluates every clause for one stored case on the real code """
    col = _Collector()
    fn = case.get("fn")
    if fn == "refine":
        perm_mode = "all" if len(case["hits"]) <= 5 else "some"
        check_refine(col, case["hits"], case["lens"], case["mode"], perm_mode)
    elif fn == "hmmer":
        check_hmmer(col, case["hits"], case["cutoffs"], case["limit"], "all" if len(case["hits"]) <= 5 else "some")
    elif fn == "filter":
        check_filter(col, case["hits"], "all" if len(case["hits"]) <= 5 else "some")
    elif fn == "merge":
        check_merge(col, case["x"], case["y"])
    elif fn == "incomplete":
        check_incomplete(col, case["doms"], case["thr"])
    else:
        return [f"harness error: unknown case {case!r}"]
    seeds = _observed(case, "seeds")
    if isinstance(seeds, dict) and fn in SEED_CLAUSE:
        from bounded._c13_spawn import run_child  # pylint: disable=import-outside-toplevel
        plain = {k: v for k, v in case.items() if k != "observed"}
        arg = {"jobs": [{"fam": "case", "case": plain}], "chunk": 0, "of": 1}
        outs: dict[str, list[int]] = {}
        for seed in sorted({s for group in seeds.values() for s in group}):
            outs.setdefault(run_child("bounded.C13", "child_eval", arg, seed)[0][0], []).append(seed)
        if len(outs) > 1:
            col.failed.append(f"{SEED_CLAUSE[fn]}: {outs}"[:600])
    return _only_recorded_clause(case, col.failed)


def _only_recorded_clause(case: dict[str, Any], failed: list[str]) -> list[str]:
    """ a case stored from a failure carries the clause it failed at (observed.clause): such a case - in
        particular the witness of a finding - is judged at that clause only; other clauses failing on the
        same input belong to other findings and have their own witnesses """
    wanted = _observed(case, "clause")
    if not isinstance(wanted, str):
        return failed
    return [text for text in failed if text.startswith("harness error") or _base(text.split(": ", 1)[0]) == wanted]
