"""Bounded stand-in for C02 -- rule text is parsed by the documented grammar, precedence, aliases.

Real code: rule_parser.Parser (texts given one after the other with shared rules/aliases, as
cluster_prediction.create_rules does; create_rules itself on temporary files; the three shipped
rule files). Oracle: bounded/_c01_ref.Reader -- an independent hand-written reader of the grammar
documented in the module docstring of rule_parser.py -- whose condition trees are compared with the
parsed Conditions BY MEANING (both evaluated with the C01 `sem`/`why` on small worlds).
"""
from __future__ import annotations

import hashlib
import itertools
import os
import random
import tempfile
from fractions import Fraction
from typing import Any, Dict, List, Optional, Sequence, Tuple

from bounded import _c01_ref as ref

RULE = (
    "Inputs: (P) every and/or/not chain over <= 4 distinct operands with every negation pattern and at most one "
    "(optionally negated) group or cds(...) around a contiguous run, (Q) the C01 rule family (atoms, binary, "
    "three-operand shapes with minimum/minscore/cds), (G) seeded random rule FILES from the documented grammar "
    "(conditions of depth <= 4, 1-3 rules, DEFINE aliases incl. bracket-less and list aliases, DESCRIPTION/"
    "EXAMPLE/RELATED/SUPERIORS chains/EXTENDERS, multipliers from {1,1.5,0.5,2,0.25}^2, split over two Parser "
    "calls or create_rules on temp files), each also re-rendered with random whitespace/comments and with "
    "aliases expanded textually; (S) the three shipped rule files; (I) targeted ill-formed texts of every kind "
    "named in the statement; (X) every single-token deletion, duplication and substitution (26-token pool) of "
    "base texts, judged by the reference reader (well-formed -> same denotation, ill-formed -> must raise, "
    "not settled by the documentation -> no demand). Non-trivial = the text has at least one operator, alias, "
    "SUPERIORS or a corruption; distinct = distinct text list."
)
EXHAUSTIVE = {"quick": False, "thorough": False}

PROFILES = ["a", "b", "c", "d", "e", "PKS_AT", "AMP-binding", "p450"]
CATEGORIES = ["PKS", "NRPS", "other"]
MULTS = [1.0, 1.5, 0.5, 2.0, 0.25]
N_SHARDS = 32

POOL = ["(", ")", "[", "]", ",", ".", "and", "or", "not", "cds", "minimum", "minscore", "a", "zz", "r1", "PKS",
        "7", "CONDITIONS", "RULE", "CUTOFF", "NEIGHBOURHOOD", "DEFINE", "AS", "EXTENDERS", "SUPERIORS", "ALPHA",
        "100-200"]


# ------------------------------------------------------------------------------------------------
# observing the real parser
# ------------------------------------------------------------------------------------------------

def real_parse_sequence(texts: Sequence[str], mult: Sequence[float]) -> Tuple[List[List[Any]], Optional[Tuple[int, Exception]]]:
    """parses the texts one after the other sharing rules and aliases (as create_rules does).
       -> (new rules per text, (index, exception) of the first refusal or None)"""
    from antismash.common.hmm_rule_parser import rule_parser
    from antismash.common.hmm_rule_parser.structures import Multipliers
    rules: List[Any] = []
    aliases: Dict[str, Any] = {}
    per_text: List[List[Any]] = []
    multipliers = Multipliers(mult[0], mult[1])
    for index, text in enumerate(texts):
        try:
            parser = rule_parser.Parser(text, set(PROFILES), set(CATEGORIES), rules,
                                        existing_aliases=aliases, multipliers=multipliers)
        except Exception as err:  # pylint: disable=broad-except
            return per_text, (index, err)
        aliases.update(parser.aliases)
        per_text.append(list(parser.rules[len(rules):]))
        rules = parser.rules
    return per_text, None


def real_to_ast(cond: Any) -> Any:
    """the parsed condition objects, transcribed (class by class) into the AST of _c01_ref"""
    from antismash.common.hmm_rule_parser import rule_parser as rp
    if isinstance(cond, rp.SingleCondition):
        return ["id", bool(cond.negated), cond.name]
    if isinstance(cond, rp.ScoreCondition):
        return ["score", bool(cond.negated), cond.name, cond.score]
    if isinstance(cond, rp.MinimumCondition):
        return ["min", bool(cond.negated), cond.count, sorted(cond.options)]
    if isinstance(cond, rp.AndCondition):
        if any(op != rp.TokenTypes.AND for op in cond.operators):
            raise ValueError("AndCondition with a non-and operator")
        return ["and", [real_to_ast(sub) for sub in cond.operands]]
    if isinstance(cond, rp.CDSCondition):
        return ["cds", bool(cond.negated), _sub_list(cond)]
    if isinstance(cond, rp.Conditions):
        return ["grp", bool(cond.negated), _sub_list(cond)]
    raise ValueError(f"unexpected condition object {type(cond)}")


def _sub_list(cond: Any) -> Any:
    from antismash.common.hmm_rule_parser import rule_parser as rp
    operands = [real_to_ast(sub) for sub in cond.operands]
    if len(operands) == 1:
        return operands[0]
    if any(op != rp.TokenTypes.OR for op in cond.operators):
        raise ValueError("plain Conditions with a non-or operator")
    return ["or", operands]


def observe(rule: Any) -> Dict[str, Any]:
    return {
        "name": rule.name, "category": rule.category, "cutoff": rule.cutoff, "neighbourhood": rule.neighbourhood,
        "conditions": real_to_ast(rule.conditions),
        "superiors": sorted(rule.superiors or []), "related": list(rule.related or []),
        "extenders": real_to_ast(rule.extenders) if rule.extenders else None,
        "description": rule.description, "examples": [str(example) for example in rule.examples],
    }


# ------------------------------------------------------------------------------------------------
# meaning
# ------------------------------------------------------------------------------------------------

def normalise(node: Any) -> Any:
    """meaning-preserving normal form: un-negated groups dissolved, nested same-operator chains
       flattened, negated groups of a single unit folded into the unit"""
    node = ref.strip_redundant(node)
    return _flatten(node)


def _flatten(node: Any) -> Any:
    tag = node[0]
    if tag in ("and", "or"):
        out = []
        for operand in node[1]:
            operand = _flatten(operand)
            if operand[0] == tag:
                out.extend(operand[1])
            else:
                out.append(operand)
        return [tag, out]
    if tag in ("cds", "grp"):
        return [tag, node[1], _flatten(node[2])]
    if tag == "min":
        return ["min", node[1], node[2], sorted(node[3])]
    return node


def _thresholds(node: Any, into: Dict[str, set]) -> None:
    tag = node[0]
    if tag == "score":
        into.setdefault(node[2], set()).add(node[3])
    elif tag in ("cds", "grp"):
        _thresholds(node[2], into)
    elif tag in ("and", "or"):
        for operand in node[1]:
            _thresholds(operand, into)


_NEARS = [
    [set(), set(), set()],
    [{1, 2}, {0, 2}, {0, 1}],
    [{1}, {0, 2}, {1}],
    [{1}, {0}, set()],
]


def same_meaning(first: Any, second: Any, salt: str = "") -> Tuple[bool, str]:
    """compares two condition trees by meaning: equal normal forms, else truth value and reason
       profiles at every gene of a battery of worlds (all single-gene worlds over the mentioned
       profiles, plus pseudo-random 3-gene worlds)"""
    if first is None or second is None:
        return (first is None and second is None), "one side has no condition"
    if normalise(first) == normalise(second):
        return True, ""
    profiles = ref.profiles_of(["and", [first, second]])
    thresholds: Dict[str, set] = {}
    _thresholds(first, thresholds)
    _thresholds(second, thresholds)

    def states(profile: str) -> List[List[float]]:
        out: List[List[float]] = [[], [1.0]]
        for value in sorted(thresholds.get(profile, ())):
            out.extend([[value - 0.5], [float(value)], [value + 1.0]])
        return out

    rng = random.Random(int(hashlib.sha1((ref.render(first) + "|" + ref.render(second) + salt).encode())
                            .hexdigest()[:12], 16))
    worlds = []
    size = 1
    for profile in profiles:
        size *= len(states(profile))
    if size <= 4096:
        # every single-gene world
        for picks in itertools.product(*[states(p) for p in profiles]):
            hits = [[[p, s] for p, scores in zip(profiles, picks) for s in scores], [], []]
            worlds.append((hits, _NEARS[0]))
    for number in range(600):
        hits = []
        for gene in range(3):
            gene_hits = []
            for profile in profiles:
                if rng.random() < 0.4 and (gene == 0 or number % 3):
                    for score in rng.choice(states(profile)[1:]):
                        gene_hits.append([profile, score])
            hits.append(gene_hits)
        worlds.append((hits, rng.choice(_NEARS)))
    for hits, near in worlds:
        world = ref.World(hits, near)
        for gene in range(3):
            one = (ref.sem(first, world, gene), ref.why(first, world, gene))
            two = (ref.sem(second, world, gene), ref.why(second, world, gene))
            if one != two:
                return False, (f"at gene {gene} of hits={hits} near={[sorted(n) for n in near]}: "
                               f"{ref.render(first)!r} gives {one[0]}/{sorted(one[1])}, "
                               f"{ref.render(second)!r} gives {two[0]}/{sorted(two[1])}")
    return True, ""


# ------------------------------------------------------------------------------------------------
# the reference verdict on a sequence of texts
# ------------------------------------------------------------------------------------------------

def reference(texts: Sequence[str]) -> Dict[str, Any]:
    """{'verdict': 'well'|'ill'|'ambiguous', 'index', 'kind', 'per_text': [[RuleDenotation]], 'reader'}"""
    reader = ref.Reader(PROFILES, CATEGORIES)
    per_text: List[List[ref.RuleDenotation]] = []
    for index, text in enumerate(texts):
        try:
            per_text.append(reader.read(text))
        except ref.IllFormed as err:
            return {"verdict": "ill", "index": index, "kind": err.kind, "why": str(err), "per_text": per_text,
                    "reader": reader}
        except ref.Ambiguous as err:
            return {"verdict": "ambiguous", "index": index, "kind": "ambiguous", "why": str(err),
                    "per_text": per_text, "reader": reader}
        if reader.unknown_elsewhere:
            section, name = reader.unknown_elsewhere[0]
            return {"verdict": "ill", "index": index, "kind": f"unknown-profile-in-{section}",
                    "why": f"unknown profile {name} in {section}", "per_text": per_text, "reader": reader}
    return {"verdict": "well", "index": len(texts), "kind": "", "why": "", "per_text": per_text, "reader": reader}


def closure(name: str, rules: Sequence[ref.RuleDenotation]) -> List[str]:
    by_name = {rule.name: rule for rule in rules}
    seen: List[str] = []
    todo = list(by_name[name].direct_superiors)
    while todo:
        current = todo.pop()
        if current in seen:
            continue
        seen.append(current)
        todo.extend(by_name[current].direct_superiors)
    return sorted(seen)


Verdicts = Dict[str, Tuple[bool, str]]
ROUNDTRIP = "regenerated-text-parses-back-to-same-rule"


def _fail(verdicts: Verdicts, clause: str, detail: str) -> None:
    old = verdicts.get(clause)
    if old is None or old[0]:
        verdicts[clause] = (False, detail)


def _ok(verdicts: Verdicts, clause: str) -> None:
    verdicts.setdefault(clause, (True, ""))


def judge(texts: Sequence[str], mult: Sequence[float], prefix: str = "", kind: str = "") -> Verdicts:
    """all clauses that apply to this sequence of texts. prefix: clause-name prefix for the
       corruption family ('corrupted: '); kind: hand-assigned kind of ill-formedness (names the
       clause instead of the reader's own diagnosis)"""
    verdicts: Verdicts = {}
    try:
        expected = reference(texts)
    except RecursionError:
        return verdicts
    if expected["verdict"] == "ambiguous":
        return verdicts
    try:
        per_text, refusal = real_parse_sequence(texts, mult)
    except Exception as err:  # pylint: disable=broad-except
        _fail(verdicts, "no-unexpected-exception", f"{type(err).__name__}: {err}")
        return verdicts
    if expected["verdict"] == "ill":
        clause = f"{prefix}rejects-{kind or expected['kind']}"
        if refusal is None:
            _fail(verdicts, clause, f"accepted although ill-formed ({expected['why']})")
        elif refusal[0] < expected["index"]:
            _fail(verdicts, f"{prefix}well-formed-text-accepted",
                  f"text {refusal[0]} is well-formed but was refused: {type(refusal[1]).__name__}: {refusal[1]}")
        else:
            _ok(verdicts, clause)
        return verdicts
    # well-formed
    clause = f"{prefix}well-formed-text-accepted"
    if refusal is not None:
        err = refusal[1]
        _fail(verdicts, clause, f"text {refusal[0]} refused: {type(err).__name__}: {str(err)[:300]}")
        return verdicts
    _ok(verdicts, clause)
    all_rules = expected["reader"].rules
    for text_index, wanted_rules in enumerate(expected["per_text"]):
        got_rules = per_text[text_index]
        clause = f"{prefix}rules-in-order-with-name-and-category"
        if [r.name for r in got_rules] != [r.name for r in wanted_rules] or \
                [r.category for r in got_rules] != [r.category for r in wanted_rules]:
            _fail(verdicts, clause, f"text {text_index}: parsed {[(r.name, r.category) for r in got_rules]}, "
                                    f"denoted {[(r.name, r.category) for r in wanted_rules]}")
            continue
        _ok(verdicts, clause)
        for got, wanted in zip(got_rules, wanted_rules):
            _compare_rule(verdicts, prefix, got, wanted, all_rules, mult)
    return verdicts


def _compare_rule(verdicts: Verdicts, prefix: str, got: Any, wanted: ref.RuleDenotation,
                  all_rules: Sequence[ref.RuleDenotation], mult: Sequence[float]) -> None:
    try:
        seen = observe(got)
    except Exception as err:  # pylint: disable=broad-except
        _fail(verdicts, f"{prefix}conditions-denote-documented-formula",
              f"rule {wanted.name}: parsed structure not understood: {err}")
        return
    clause = f"{prefix}distances-in-kb-scaled-by-multipliers"
    want_cutoff = ref.scaled(wanted.cutoff_kb, mult[0])
    want_neigh = ref.scaled(wanted.neighbourhood_kb, mult[1])
    if Fraction(seen["cutoff"]) != want_cutoff or Fraction(seen["neighbourhood"]) != want_neigh:
        _fail(verdicts, clause, f"rule {wanted.name}: cutoff/neighbourhood {seen['cutoff']}/{seen['neighbourhood']}, "
                                f"expected {want_cutoff}/{want_neigh} (kb {wanted.cutoff_kb}/{wanted.neighbourhood_kb} "
                                f"x {list(mult)})")
    else:
        _ok(verdicts, clause)
    clause = f"{prefix}conditions-denote-documented-formula"
    same, detail = same_meaning(seen["conditions"], wanted.conditions)
    if not same:
        _fail(verdicts, clause, f"rule {wanted.name}: {detail}")
    else:
        _ok(verdicts, clause)
    clause = f"{prefix}superiors-transitively-closed"
    want_sup = closure(wanted.name, all_rules)
    if seen["superiors"] != want_sup:
        _fail(verdicts, clause, f"rule {wanted.name}: superiors {seen['superiors']}, closure is {want_sup}")
    else:
        _ok(verdicts, clause)
    clause = f"{prefix}related-and-extenders-as-written"
    same_ext, detail = same_meaning(seen["extenders"], wanted.extenders)
    if seen["related"] != wanted.related or not same_ext:
        _fail(verdicts, clause, f"rule {wanted.name}: related {seen['related']} vs {wanted.related}; extenders {detail}")
    else:
        _ok(verdicts, clause)
    if not prefix:
        _roundtrip(verdicts, got, seen)


def _roundtrip(verdicts: Verdicts, got: Any, seen: Dict[str, Any]) -> None:
    """the text regenerated from a parsed rule parses back to the same name, distances, meaning"""
    from antismash.common.hmm_rule_parser import rule_parser
    clause = ROUNDTRIP
    try:
        text = got.reconstruct_rule_text()
    except Exception as err:  # pylint: disable=broad-except
        _fail(verdicts, clause, f"rule {seen['name']}: reconstruct_rule_text raised {type(err).__name__}: {err}")
        return
    try:
        again = rule_parser.Parser(text, set(PROFILES), set(CATEGORIES)).rules
        assert len(again) == 1, f"{len(again)} rules"
        back = observe(again[0])
    except Exception as err:  # pylint: disable=broad-except
        _fail(verdicts, clause, f"rule {seen['name']}: regenerated text {text!r} does not parse back: "
                                f"{type(err).__name__}: {str(err)[:200]}")
        return
    problems = []
    if back["name"] != seen["name"]:
        problems.append(f"name {back['name']!r} vs {seen['name']!r}")
    if (back["cutoff"], back["neighbourhood"]) != (seen["cutoff"], seen["neighbourhood"]):
        problems.append(f"distances {back['cutoff']}/{back['neighbourhood']} vs {seen['cutoff']}/{seen['neighbourhood']}")
    same, detail = same_meaning(back["conditions"], seen["conditions"])
    if not same:
        problems.append(f"meaning: {detail}")
    if problems:
        _fail(verdicts, clause, f"rule {seen['name']}: regenerated {text!r}: " + "; ".join(problems))
    else:
        _ok(verdicts, clause)


def metamorphic(base_texts: Sequence[str], other_texts: Sequence[str], mult: Sequence[float], clause: str,
                free_text: bool = True) -> Verdicts:
    """both sequences must be treated the same by the real parser (same refusal or same rules);
       free_text: also compare DESCRIPTION / EXAMPLE texts (not for the alias clause: they are not
       part of what the rule denotes, and the parser substitutes an alias label only when it is the
       first word of such a text)"""
    verdicts: Verdicts = {}
    try:
        base_rules, base_refusal = real_parse_sequence(base_texts, mult)
        other_rules, other_refusal = real_parse_sequence(other_texts, mult)
    except Exception as err:  # pylint: disable=broad-except
        _fail(verdicts, "no-unexpected-exception", f"{type(err).__name__}: {err}")
        return verdicts
    if (base_refusal is None) != (other_refusal is None):
        _fail(verdicts, clause, f"one variant refused, the other accepted: {base_refusal!r} / {other_refusal!r}")
        return verdicts
    if base_refusal is not None:
        _ok(verdicts, clause)
        return verdicts
    try:
        first = [observe(rule) for rules in base_rules for rule in rules]
        second = [observe(rule) for rules in other_rules for rule in rules]
    except Exception as err:  # pylint: disable=broad-except
        _fail(verdicts, clause, f"parsed structure not understood: {err}")
        return verdicts
    if len(first) != len(second):
        _fail(verdicts, clause, f"{len(first)} rules vs {len(second)} rules")
        return verdicts
    for one, two in zip(first, second):
        fields = ["name", "category", "cutoff", "neighbourhood", "superiors", "related"]
        if free_text:
            fields += ["description", "examples"]
        for field in fields:
            if one[field] != two[field]:
                _fail(verdicts, clause, f"rule {one['name']}: {field} {one[field]!r} vs {two[field]!r}")
        for field in ("conditions", "extenders"):
            same, detail = same_meaning(one[field], two[field])
            if not same:
                _fail(verdicts, clause, f"rule {one['name']}: {field}: {detail}")
    _ok(verdicts, clause)
    return verdicts


# ------------------------------------------------------------------------------------------------
# text generation
# ------------------------------------------------------------------------------------------------

def wrap(cond_text: str, name: str = "r1", category: str = "PKS", cutoff: int = 5, neigh: int = 7,
         extra: str = "", tail: str = "") -> str:
    return (f"RULE {name} CATEGORY {category} {extra}CUTOFF {cutoff} NEIGHBOURHOOD {neigh} "
            f"CONDITIONS {cond_text}{tail}")


def precedence_family() -> List[str]:
    """(P): every chain of <= 4 distinct operands, every operator and negation pattern, at most
       one (optionally negated) group or cds() around a contiguous run of >= 2 operands"""
    out: List[str] = []
    names = ["a", "b", "c", "d"]
    for count in (1, 2, 3, 4):
        for ops in itertools.product(("and", "or"), repeat=count - 1):
            for negs in itertools.product((False, True), repeat=count):
                units = [("not " if neg else "") + name for neg, name in zip(negs, names)]
                wraps: List[Optional[Tuple[int, int, str]]] = [None]
                for start in range(count):
                    for end in range(start + 2, count + 1):
                        for opener in ("(", "not (", "cds(", "not cds("):
                            wraps.append((start, end, opener))
                if count == 1:
                    wraps.extend([(0, 1, "("), (0, 1, "not (")])
                for choice in wraps:
                    parts = []
                    for index, unit in enumerate(units):
                        piece = unit
                        if choice and index == choice[0]:
                            piece = choice[2] + piece
                        if choice and index == choice[1] - 1:
                            piece = piece + ")"
                        parts.append(piece)
                        if index < count - 1:
                            parts.append(ops[index])
                    out.append(" ".join(parts))
    return out


_NOISE = [" ", " ", "  ", "\n", "\t", " \n  ", "\r\n", "# glued comment\n", "\x0b", " # a comment ( and RULE x CONDITIONS [\n",
          "\n# whole line, with a url https://example.org/x?y=1 and 'quotes'!\n", "\t\t", "\n\n"]


def noisy(tokens: Sequence[str], rng: random.Random, final_comment: bool = True) -> str:
    """the same tokens with arbitrary whitespace / comments between them"""
    out = []
    for index, token in enumerate(tokens):
        if index:
            prev = tokens[index - 1]
            glue_ok = (prev in ref.PUNCT or token in ref.PUNCT)
            if glue_ok and rng.random() < 0.5:
                sep = ""
            else:
                sep = rng.choice(_NOISE)
            out.append(sep)
        out.append(token)
    text = "".join(out)
    if rng.random() < 0.5:
        text = rng.choice(["\n", "  ", "# leading comment\n", "\t"]) + text
    if final_comment and rng.random() < 0.5:
        text += rng.choice([" # trailing comment without newline", "\n", "   ", "\n# end\n", "#glued trailing comment"])
    return text


def expand_aliases(text: str) -> Optional[str]:
    """the same text with every DEFINE removed and every later use replaced textually (own
       token-level substitution); None if the text defines nothing"""
    tokens = ref.tokenise(text)
    aliases: Dict[str, List[str]] = {}
    out: List[str] = []
    index = 0
    in_free_text = False
    while index < len(tokens):
        token = tokens[index]
        if token == "DEFINE" and index + 2 < len(tokens) and tokens[index + 2] == "AS":
            label = tokens[index + 1]
            index += 3
            value: List[str] = []
            while index < len(tokens) and ref.classify(tokens[index]) != "marker":
                value.extend(aliases.get(tokens[index], [tokens[index]]))
                index += 1
            aliases[label] = value
            in_free_text = False
            continue
        if ref.classify(token) == "marker":
            in_free_text = token in ("DESCRIPTION", "EXAMPLE")
        if token in aliases and not in_free_text:
            # a value may mention a label that was defined after it: substitute until none is left
            pending = list(aliases[token])
            rounds = 0
            while any(item in aliases for item in pending) and rounds < 20:
                pending = [piece for item in pending for piece in aliases.get(item, [item])]
                rounds += 1
            out.extend(pending)
        else:
            out.append(token)
        index += 1
    if not aliases:
        return None
    return " ".join(out)


class FileGen:
    """(G): random rule files from the documented grammar"""

    def __init__(self, rng: random.Random, depth: int = 4) -> None:
        self.rng = rng
        self.depth = depth
        self.aliases: Dict[str, str] = {}    # label -> kind ('formula' | 'bare' | 'list')
        self.rule_names: List[str] = []
        self.name_pool = ["r1", "T1-pks", "rule_3", "x", "NRPS-like", "b2", "lasso", "q7"]
        self.alias_pool = ["ALPHA", "any_ks", "L1", "grp-2"]

    # -- conditions ---------------------------------------------------------------------------
    def ident(self) -> str:
        return self.rng.choice(PROFILES)

    def unit(self, depth: int, in_cds: bool) -> str:
        rng = self.rng
        neg = "not " if rng.random() < 0.3 else ""
        roll = rng.random()
        formula_aliases = [label for label, kind in self.aliases.items() if kind == "formula"]
        if formula_aliases and roll < 0.12 and not in_cds:
            return neg + rng.choice(formula_aliases)
        if depth > 0 and roll < 0.35:
            return f"{neg}({self.formula(depth - 1, in_cds)})"
        if depth > 0 and not in_cds and roll < 0.55:
            inner = self.formula(depth - 1, True, minimum_operands=2)
            return f"{neg}cds({inner})"
        if not in_cds and roll < 0.68:
            names = rng.sample(PROFILES, rng.randint(1, 4))
            list_aliases = [label for label, kind in self.aliases.items() if kind == "list"]
            if list_aliases and rng.random() < 0.3:
                names = [rng.choice(list_aliases)] + [n for n in names if n not in ("a", "b")][:2]
            return f"{neg}minimum({rng.randint(1, 4)}, [{', '.join(names)}])"
        if roll < 0.76:
            return f"{neg}minscore({self.ident()}, {rng.choice([1, 50, 150, 25])})"
        return neg + self.ident()

    def formula(self, depth: int, in_cds: bool, minimum_operands: int = 1) -> str:
        rng = self.rng
        count = max(minimum_operands, rng.choice([1, 2, 2, 3, 4]))
        parts = [self.unit(depth, in_cds)]
        for _ in range(count - 1):
            parts.append(rng.choice(["and", "or"]))
            parts.append(self.unit(depth, in_cds))
        bare = [label for label, kind in self.aliases.items() if kind == "bare"]
        if bare and rng.random() < 0.15 and not in_cds:
            parts[rng.randrange(0, len(parts), 2)] = rng.choice(bare)
        return " ".join(parts)

    # -- sections -----------------------------------------------------------------------------
    def description(self) -> str:
        rng = self.rng
        words = ["Type", "I", "polyketide", "(NRPS-like)", "fragment,", "e.g.", "and", "not", "cds", "2", "x.y",
                 "beta-lactone", "minimum", "[sic]", "a", "ALPHA", "100-200", "or"]
        return "DESCRIPTION " + " ".join(rng.choice(words) for _ in range(rng.randint(1, 6))) + " "

    def example(self) -> str:
        rng = self.rng
        start = rng.randint(0, 5000)
        name = rng.choice(["", " kirromycin", " compound A-7", " some (odd) name, really"])
        return f"EXAMPLE NCBI {rng.choice(['AB123456', 'CP006259', 'NC_003888'])}.{rng.randint(1, 3)} " \
               f"{start}-{start + rng.randint(0, 90000)}{name} "

    def rule(self) -> str:
        rng = self.rng
        name = rng.choice([n for n in self.name_pool if n not in self.rule_names and n not in self.aliases])
        extra = ""
        if rng.random() < 0.5:
            extra += self.description()
        for _ in range(rng.choice([0, 0, 1, 2])):
            extra += self.example()
        if rng.random() < 0.3:
            extra += "RELATED " + ", ".join(rng.sample(PROFILES, rng.randint(1, 3))) + " "
        if self.rule_names and rng.random() < 0.6:
            extra += "SUPERIORS " + ", ".join(rng.sample(self.rule_names, rng.randint(1, min(2, len(self.rule_names))))) + " "
        tail = ""
        roll = rng.random()
        if roll < 0.15:
            tail = " EXTENDERS " + self.ident()
        elif roll < 0.3:
            tail = f" EXTENDERS cds({self.formula(1, True, minimum_operands=2)})"
        text = wrap(self.formula(self.depth - 1, False), name, rng.choice(CATEGORIES), 4 * rng.randint(1, 25),
                    4 * rng.randint(1, 25), extra, tail)
        self.rule_names.append(name)
        return text

    def alias(self) -> str:
        rng = self.rng
        label = rng.choice([n for n in self.alias_pool if n not in self.aliases] or ["zz9"])
        kind = rng.choice(["formula", "formula", "bare", "list"])
        if kind == "formula":
            value = f"({self.formula(1, False)})" if rng.random() < 0.7 else self.unit(1, False)
        elif kind == "bare":
            value = f"{self.ident()} {rng.choice(['and', 'or'])} {self.unit(0, True)}"
        else:
            value = ", ".join(rng.sample(["a", "b"], rng.randint(1, 2)))
        text = f"DEFINE {label} AS {value}"
        self.aliases[label] = kind
        return text

    def file(self, rules: int) -> List[str]:
        """the items (DEFINE / RULE blocks) of one file"""
        items = []
        made = 0
        while made < rules:
            if len(self.aliases) < len(self.alias_pool) and self.rng.random() < 0.35:
                items.append(self.alias())
            else:
                items.append(self.rule())
                made += 1
        return items


def base_texts() -> List[List[str]]:
    """hand-written well-formed base files for the corruption family (each a list of texts parsed
       in sequence; the LAST one is corrupted)"""
    return [
        ["RULE r1 CATEGORY PKS CUTOFF 5 NEIGHBOURHOOD 7 CONDITIONS a and (b or not c)"],
        ["RULE r1 CATEGORY PKS DESCRIPTION some text (x) CUTOFF 5 NEIGHBOURHOOD 7 CONDITIONS cds(a and not b) or "
         "minimum(2, [c, d, e]) and not minscore(a, 50)"],
        ["DEFINE ALPHA AS (a or b) RULE r1 CATEGORY PKS CUTOFF 5 NEIGHBOURHOOD 7 CONDITIONS ALPHA and c "
         "RULE r2 CATEGORY NRPS SUPERIORS r1 CUTOFF 10 NEIGHBOURHOOD 20 CONDITIONS cds(ALPHA and d) EXTENDERS e"],
        ["RULE r1 CATEGORY PKS CUTOFF 5 NEIGHBOURHOOD 7 CONDITIONS a",
         "RULE r2 CATEGORY other EXAMPLE NCBI AB123.1 100-200 name RELATED d, e SUPERIORS r1 CUTOFF 1 "
         "NEIGHBOURHOOD 2 CONDITIONS not a and b or c EXTENDERS cds(a or b)"],
        ["DEFINE ALPHA AS a, b RULE r1 CATEGORY PKS CUTOFF 5 NEIGHBOURHOOD 7 CONDITIONS minimum(2, [ALPHA, c]) "
         "and not (d or e)"],
        ["RULE r1 CATEGORY PKS CUTOFF 5 NEIGHBOURHOOD 7 CONDITIONS a RULE r2 CATEGORY PKS SUPERIORS r1 CUTOFF 5 "
         "NEIGHBOURHOOD 7 CONDITIONS b RULE r3 CATEGORY PKS SUPERIORS r2 CUTOFF 5 NEIGHBOURHOOD 7 "
         "CONDITIONS c or cds(d and (a or b))"],
        ["DEFINE ALPHA AS a or b DEFINE L1 AS (ALPHA and c) RULE r1 CATEGORY NRPS DESCRIPTION ALPHA and (not) cds e.g. "
         "CUTOFF 12 NEIGHBOURHOOD 8 CONDITIONS L1 or d and ALPHA EXTENDERS cds(d and not e)"],
        ["RULE r1 CATEGORY other EXAMPLE NCBI CP006259.2 5-9000 EXAMPLE NCBI NC_003888.1 1-2 some name RELATED a "
         "CUTOFF 20 NEIGHBOURHOOD 30 CONDITIONS not (a or (b and not (c or d))) and e and minscore(PKS_AT, 150)"],
        ["DEFINE ALPHA AS (a or b)", "RULE r1 CATEGORY PKS CUTOFF 5 NEIGHBOURHOOD 7 CONDITIONS not ALPHA and c",
         "RULE r2 CATEGORY PKS SUPERIORS r1 CUTOFF 5 NEIGHBOURHOOD 7 CONDITIONS minimum(3, [a, b]) or "
         "not cds(ALPHA and c) and AMP-binding"],
        ["RULE r1 CATEGORY PKS CUTOFF 5 NEIGHBOURHOOD 7 CONDITIONS (a or b) and (c or d) or not (a and e) and p450 "
         "RULE r2 CATEGORY NRPS CUTOFF 1 NEIGHBOURHOOD 1 CONDITIONS cds(a or b and c)"],
    ]


def regeneration_family() -> List[Dict[str, Any]]:
    """small dedicated families for the regenerated-text clause: distances that are not whole
       kilobases after scaling; negated groups around a single negated unit; redundant groups"""
    out: List[Dict[str, Any]] = []
    for kb in (1, 2, 3, 5, 7, 10, 45):
        for mult in ([1.5, 1.0], [1.0, 0.5], [0.25, 1.5], [0.5, 0.25], [2.0, 1.0]):
            out.append({"fam": "wf", "texts": [wrap("a and not b", cutoff=kb, neigh=kb + 1)], "mult": mult})
    def sup(name: str, superiors: str = "") -> str:
        return wrap("a", name=name, extra=f"SUPERIORS {superiors} " if superiors else "")
    chains = [
        [" ".join([sup("r1"), sup("r2", "r1"), sup("r3", "r2"), sup("r4", "r3"), sup("r5", "r4")])],
        [" ".join([sup("r1"), sup("r2", "r1")]), sup("r3", "r2"), " ".join([sup("r4", "r3"), sup("r5", "r4, r1")])],
        [" ".join([sup("r1"), sup("r2", "r1"), sup("r3", "r1"), sup("r4", "r2, r3"), sup("r5", "r4")])],
        [" ".join([sup("r1"), sup("r2"), sup("r3", "r2, r1"), sup("r4", "r3"), sup("r5", "r1")])],
        [sup("r1"), sup("r2", "r1"), sup("r3", "r2"), sup("r4", "r3")],
        # several listed superiors that each inherit DIFFERENT superiors of their own (in either order, also split over files)
        [" ".join([sup("t1"), sup("t2"), sup("m1", "t1"), sup("m2", "t2"), sup("low", "m1, m2")])],
        [" ".join([sup("t1"), sup("t2"), sup("m1", "t1"), sup("m2", "t2"), sup("low", "m2, m1")])],
        [" ".join([sup("t1"), sup("t2"), sup("t3"), sup("m1", "t1"), sup("m2", "t2, t3")]), sup("low", "m1, m2"),
         sup("lower", "low")],
    ]
    for texts in chains:
        out.append({"fam": "wf", "texts": texts, "mult": [1.0, 1.0]})
    # an alias value that mentions a label defined later (substitution happens where it is used)
    out.append({"fam": "wf", "mult": [1.0, 1.0],
                "texts": ["DEFINE ALPHA AS (a or L1) DEFINE L1 AS b and c " + wrap("ALPHA and d")]})
    out.append({"fam": "wf", "mult": [1.0, 1.0],
                "texts": ["DEFINE ALPHA AS (a or L1)", "DEFINE L1 AS b, c " + wrap("minimum(2, [L1, d]) or e"),
                          wrap("not ALPHA and d", name="r2")]})
    out.append({"fam": "alias", "mult": [1.0, 1.0],
                "texts": ["DEFINE ALPHA AS (a or L1) DEFINE L1 AS b and c " + wrap("ALPHA and d")],
                "other": [wrap("( a or b and c ) and d")]})
    for cond in ("b and not (not a)", "b or not (not minimum(1, [a]))", "a and not (not cds(b and c))",
                 "a and not (not (b or c))", "a and not ((not b))", "a and (not b)", "a and not (b)", "((a or b)) and c",
                 "(a)", "((a))", "not (not a) and b", "a and not (not minscore(b, 5))", "(cds(a and b))",
                 "not (cds(a and b)) and c", "(a and b)", "((a and b) or c)", "(a or b) and (c or d)",
                 "(a or b) or (c and d)", "cds((a or b) and c)", "cds(a and (b or c))", "cds((a and b) or c)",
                 "cds(not (a or b) and c)", "cds(a and not (not b))", "a and cds(b and (not c))"):
        out.append({"fam": "wf", "texts": [wrap(cond, cutoff=20, neigh=20)], "mult": [1.0, 1.0]})
    return out


def ill_formed_family() -> List[Tuple[str, List[str]]]:
    """(I): (kind expected by the statement, texts) -- the last text must be refused"""
    ok1 = "RULE r1 CATEGORY PKS CUTOFF 5 NEIGHBOURHOOD 7 CONDITIONS a"
    ok2 = "RULE r2 CATEGORY PKS CUTOFF 5 NEIGHBOURHOOD 7 CONDITIONS b"
    out: List[Tuple[str, List[str]]] = []
    for cond in ("zz", "a and zz", "cds(a and zz)", "minimum(1, [a, zz])", "minscore(zz, 5)", "not zz and a",
                 "a or (b and (c or zz))", "cluster", "a and score"):
        out.append(("unknown-profile", [wrap(cond)]))
    out.append(("unknown-profile", ["DEFINE ALPHA AS (a or zz) " + wrap("ALPHA and b")]))
    out.append(("unknown-profile", [wrap("a and ALPHA") + " DEFINE ALPHA AS b"]))       # used before defined
    out.append(("unknown-profile", ["DEFINE ALPHA AS b", wrap("a and BETA")]))
    out.append(("unknown-profile-in-extenders", [wrap("a", tail=" EXTENDERS zz")]))
    out.append(("unknown-profile-in-extenders", [wrap("a", tail=" EXTENDERS cds(a and zz)")]))
    out.append(("unknown-profile-in-related", [wrap("a", extra="RELATED b, zz ")]))
    out.append(("unknown-category", [wrap("a", category="nope")]))
    out.append(("unknown-category", [wrap("a", category="pks")]))
    out.append(("duplicate-rule", [ok1 + " " + ok1]))
    out.append(("duplicate-rule", [ok1 + " " + ok2 + " " + wrap("c", name="r1")]))
    out.append(("duplicate-rule", [ok1, ok2, wrap("c", name="r1")]))
    out.append(("duplicate-alias", ["DEFINE ALPHA AS a DEFINE ALPHA AS b " + ok1]))
    out.append(("duplicate-alias", ["DEFINE ALPHA AS a " + ok1, "DEFINE ALPHA AS b " + ok2]))
    out.append(("alias-is-profile", ["DEFINE a AS b " + ok1]))
    out.append(("alias-is-rule", [ok1 + " DEFINE r1 AS b " + ok2]))
    out.append(("alias-is-rule", [ok1, "DEFINE r1 AS b " + ok2]))
    out.append(("rule-name-is-alias", ["DEFINE r1 AS b " + ok1]))
    out.append(("rule-name-is-alias", ["DEFINE r2 AS b " + ok1, ok2]))
    for cond in ("a and a", "a or a", "a or b or a", "a and b and a", "(a or b) and (a or b)", "a and b or a and b",
                 "cds(a and a)", "cds(a and b) or cds(a and b)", "not a and b and not a", "minimum(2, [a, b, a])",
                 "c and (a or b or a)", "minscore(a, 5) and minscore(a, 5)"):
        out.append(("repeated-operand", [wrap(cond)]))
    out.append(("duplicate-superior", [ok1 + " " + wrap("b", name="r2", extra="SUPERIORS r1, r1 ")]))
    for broken in ("RULE r1 CUTOFF 5 NEIGHBOURHOOD 7 CONDITIONS a",
                   "RULE r1 CATEGORY PKS NEIGHBOURHOOD 7 CONDITIONS a",
                   "RULE r1 CATEGORY PKS CUTOFF 5 CONDITIONS a",
                   "RULE r1 CATEGORY PKS CUTOFF 5 NEIGHBOURHOOD 7",
                   "RULE r1 CATEGORY PKS CUTOFF 5 NEIGHBOURHOOD 7 a",
                   "RULE r1 CATEGORY PKS CUTOFF NEIGHBOURHOOD 7 CONDITIONS a",
                   "RULE r1 CATEGORY PKS CUTOFF 5 NEIGHBOURHOOD CONDITIONS a",
                   "RULE r1 CATEGORY PKS CUTOFF 5 NEIGHBOURHOOD 7 CONDITIONS",
                   "RULE CATEGORY PKS CUTOFF 5 NEIGHBOURHOOD 7 CONDITIONS a",
                   "r1 CATEGORY PKS CUTOFF 5 NEIGHBOURHOOD 7 CONDITIONS a",
                   "RULE r1 CATEGORY CUTOFF 5 NEIGHBOURHOOD 7 CONDITIONS a",
                   "RULE r1 CATEGORY PKS NEIGHBOURHOOD 7 CUTOFF 5 CONDITIONS a",
                   "RULE r1 CATEGORY PKS CUTOFF 5 NEIGHBOURHOOD 7 CONDITIONS a RULE r2 CATEGORY PKS CUTOFF 5",
                   "RULE r1 CATEGORY PKS SUPERIORS CUTOFF 5 NEIGHBOURHOOD 7 CONDITIONS a",
                   "RULE r1 CATEGORY PKS RELATED CUTOFF 5 NEIGHBOURHOOD 7 CONDITIONS a"):
        out.append(("syntax", [broken]))
    for cond in ("(a and b", "a and b)", "a and (b or (c and d)", "cds(a and b", "cds a and b)", "((a or b) and c",
                 "a and ()", "minimum(2, [a, b)", "minimum(2, a, b])", "minscore(a, 5", "(a or b)) and c",
                 "a and (b or c))", "not (a or b and c"):
        out.append(("unbalanced-group", [wrap(cond)]))
    for cond in ("not a", "not a and not b", "not (a or b)", "not a or not b", "not cds(a and b)",
                 "not minimum(2, [a, b])", "not minscore(a, 5)", "cds(not a and not b)", "not (a and b) and not c",
                 "not (a or (b and c))", "(not a)", "not a and not cds(b or c)"):
        out.append(("no-positive-requirement", [wrap(cond)]))
    out.append(("superior-undefined", [wrap("a", extra="SUPERIORS r9 ")]))
    out.append(("superior-undefined", [wrap("a", extra="SUPERIORS r1 ")]))                  # itself
    out.append(("superior-undefined", [wrap("a", extra="SUPERIORS r2 ") + " " + ok2]))      # defined later
    out.append(("superior-undefined", [ok1, wrap("b", name="r2", extra="SUPERIORS r1, r3 ")]))
    out.append(("superior-undefined", [ok1 + " " + wrap("b", name="r2", extra="SUPERIORS a ")]))
    for cond in ("a and", "and a", "a b", "a and or b", "a not and b", "not not a and b", "a and not", "cds(a)",
                 "cds(not a)", "cds()", "cds(a and cds(b and c))", "cds(a and minimum(1, [b]))", "minimum(2, [])",
                 "minimum(a, [b])", "minimum([a, b])", "minimum(2, [a b])", "minscore(a)", "minscore(5, a)",
                 "a and (b or c) d", "a, b", "[a]", "a and CUTOFF", "cds(a and (b or cds(c and d)))",
                 "cds(a and (minimum(1, [b]) or c))", "cds(a and not (cds(b and c)))"):
        out.append(("syntax", [wrap(cond)]))
    return out


# ------------------------------------------------------------------------------------------------
# shards
# ------------------------------------------------------------------------------------------------

def shards(tier: str, seed: int) -> List[Dict[str, Any]]:
    out: List[Dict[str, Any]] = []
    for index in range(8):
        out.append({"kind": "precedence", "index": index, "of": 8})
    for index in range(6):
        out.append({"kind": "c01rules", "index": index, "of": 6})
    out.append({"kind": "ill"})
    out.append({"kind": "regen"})
    out.append({"kind": "shipped"})
    bases = len(base_texts())
    for index in range(bases):
        out.append({"kind": "corrupt", "base": index})
    files = 16 if tier == "quick" else 32
    for index in range(files):
        out.append({"kind": "files", "index": index, "count": 120 if tier == "quick" else 2500})
    return out


_INTERESTING = {"and", "or", "not", "cds", "minimum", "minscore", "(", "DEFINE", "SUPERIORS", "EXTENDERS"}


def _nontrivial(case: Dict[str, Any]) -> bool:
    if case.get("fam") in ("cor", "shipped"):
        return True
    return any(token in _INTERESTING for text in case.get("texts", []) for token in ref.tokenise(text))


def _report(run: Any, verdicts: Verdicts, case: Dict[str, Any], nontrivial: Optional[bool] = None) -> None:
    if nontrivial is None:
        nontrivial = _nontrivial(case)
    for clause, (ok, detail) in verdicts.items():
        if clause.startswith("harness:"):
            if not ok:
                run.error(f"{clause}: {detail} ({case})")
            continue
        if clause == ROUNDTRIP:
            known = roundtrip_input_class(case)
            if known:
                clause = f"{clause} @{known}"
        run.check(clause, ok, case, nontrivial=nontrivial, detail=detail)


def run_shard(shard: Dict[str, Any], run: Any) -> None:
    kind = shard["kind"]
    if kind == "precedence":
        texts = precedence_family()
        for position in range(shard["index"], len(texts), shard["of"]):
            mult = [MULTS[position % 5], MULTS[(position // 5) % 5]]
            case = {"fam": "wf", "texts": [wrap(texts[position], cutoff=4 * (1 + position % 40),
                                                neigh=4 * (2 + position % 37))], "mult": mult}
            _report(run, judge(case["texts"], mult), case)
    elif kind == "c01rules":
        from bounded import C01
        texts = C01.rule_texts("quick")
        renamed = {"a": "PKS_AT", "b": "AMP-binding", "c": "p450"}
        for position in range(shard["index"], len(texts), shard["of"]):
            tokens = [renamed.get(token, token) for token in ref.tokenise(texts[position])]
            case = {"fam": "wf", "texts": [wrap(" ".join(tokens), cutoff=20, neigh=20)], "mult": [1.0, 1.0]}
            _report(run, judge(case["texts"], case["mult"]), case)
    elif kind == "ill":
        for wanted_kind, texts in ill_formed_family():
            case = {"fam": "ill", "kind": wanted_kind, "texts": texts, "mult": [1.0, 1.0]}
            _report(run, _judge_ill(case), case)
    elif kind == "regen":
        for case in regeneration_family():
            if case["fam"] == "alias":
                _report(run, metamorphic(case["texts"], case["other"], case["mult"],
                                         "aliases-are-textual-substitution", False), case)
            else:
                _report(run, judge(case["texts"], case["mult"]), case)
    elif kind == "shipped":
        case = {"fam": "shipped"}
        _report(run, judge_shipped(), case)
    elif kind == "corrupt":
        _run_corruptions(shard, run)
    elif kind == "files":
        _run_files(shard, run)
    else:
        run.error(f"unknown shard {shard!r}")


def _judge_ill(case: Dict[str, Any]) -> Verdicts:
    """the reference reader must agree with the hand-assigned kind (else harness problem, shown as
       a failed 'reference-reader-agrees' clause) and the real parser must refuse"""
    verdicts = judge(case["texts"], case["mult"], kind=case["kind"])
    expected = reference(case["texts"])
    if expected["verdict"] != "ill" or expected["index"] != len(case["texts"]) - 1:
        verdicts["harness: reference-reader-finds-the-text-ill-formed"] = (
            False, f"hand label {case['kind']}, reader says {expected['verdict']} {expected['kind']} {expected['why']}")
    return verdicts


def _run_corruptions(shard: Dict[str, Any], run: Any) -> None:
    texts = base_texts()[shard["base"]]
    base_case = {"fam": "wf", "texts": texts, "mult": [1.0, 1.0]}
    _report(run, judge(texts, [1.0, 1.0]), base_case)
    _corrupt(texts, run)


def _corrupt(texts: Sequence[str], run: Any) -> None:
    """every single-token deletion, duplication and pool substitution of the LAST text"""
    prefix_texts, last = list(texts[:-1]), texts[-1]
    tokens = ref.tokenise(last)
    variants: List[Tuple[str, List[str]]] = []
    for index in range(len(tokens)):
        variants.append((f"del{index}", tokens[:index] + tokens[index + 1:]))
        variants.append((f"dup{index}", tokens[:index + 1] + tokens[index:]))
        for token in POOL:
            if token != tokens[index]:
                variants.append((f"sub{index}:{token}", tokens[:index] + [token] + tokens[index + 1:]))
    for label, changed in variants:
        case = {"fam": "cor", "edit": label, "texts": prefix_texts + [" ".join(changed)], "mult": [1.0, 1.0]}
        verdicts = judge(case["texts"], case["mult"], prefix="corrupted: ")
        if not verdicts:
            run.check("corrupted: not-settled-by-documentation", True, case, nontrivial=False)
        _report(run, verdicts, case)
        if run.out_of_time():
            return


def _run_files(shard: Dict[str, Any], run: Any) -> None:
    rng = run.rng
    made = 0
    attempts = 0
    while made < shard["count"] and attempts < shard["count"] * 30 and not run.out_of_time():
        attempts += 1
        gen = FileGen(rng, depth=rng.choice([2, 3, 4]))
        items = gen.file(rng.randint(1, 3))
        split_at = rng.randint(1, len(items)) if rng.random() < 0.5 else len(items)
        texts = [" ".join(items[:split_at])] + ([" ".join(items[split_at:])] if split_at < len(items) else [])
        mult = [rng.choice(MULTS), rng.choice(MULTS)]
        try:
            expected = reference(texts)
        except RecursionError:
            continue
        if expected["verdict"] != "well":
            continue          # the generator's draw is not a well-formed file (repeated operand, ...)
        made += 1
        case = {"fam": "wf", "texts": texts, "mult": mult}
        _report(run, judge(texts, mult), case)
        # whitespace and comments are irrelevant
        noisy_texts = [noisy(ref.tokenise(text), rng) for text in texts]
        case = {"fam": "noise", "texts": texts, "other": noisy_texts, "mult": mult}
        _report(run, metamorphic(texts, noisy_texts, mult, "whitespace-and-comments-irrelevant"), case)
        # aliases behave as textual substitution
        joined = " ".join(texts)
        expanded = expand_aliases(joined)
        if expanded is not None:
            case = {"fam": "alias", "texts": [joined], "other": [expanded], "mult": mult}
            _report(run, metamorphic([joined], [expanded], mult, "aliases-are-textual-substitution", False), case)
        # one file or several: same rules
        if len(texts) > 1:
            case = {"fam": "split", "texts": [joined], "other": texts, "mult": mult}
            _report(run, metamorphic([joined], texts, mult, "rules-split-over-files-same-as-one-file"), case)
        if made % 10 == 0:
            case = {"fam": "create_rules", "texts": texts, "mult": mult}
            _report(run, judge_create_rules(texts, mult), case)
        if run.tier == "thorough" and made % 150 == 0 and len(ref.tokenise(texts[-1])) <= 150:
            _corrupt(texts, run)


def judge_create_rules(texts: Sequence[str], mult: Sequence[float]) -> Verdicts:
    """cluster_prediction.create_rules on temporary files == Parser calls in sequence"""
    from antismash.common.hmm_rule_parser import cluster_prediction
    from antismash.common.hmm_rule_parser.structures import Multipliers
    verdicts: Verdicts = {}
    clause = "create_rules-reads-files-in-order-sharing-aliases"
    with tempfile.TemporaryDirectory(prefix="c01-c02-") as folder:
        paths = []
        for index, text in enumerate(texts):
            path = os.path.join(folder, f"rules{index}.txt")
            with open(path, "w", encoding="utf-8") as handle:
                handle.write(text)
            paths.append(path)
        try:
            rules = cluster_prediction.create_rules(paths, set(PROFILES), set(CATEGORIES),
                                                    Multipliers(mult[0], mult[1]))
            got = [observe(rule) for rule in rules]
        except Exception as err:  # pylint: disable=broad-except
            _fail(verdicts, clause, f"create_rules raised {type(err).__name__}: {str(err)[:300]}")
            return verdicts
    per_text, refusal = real_parse_sequence(texts, mult)
    if refusal is not None:
        _fail(verdicts, clause, "create_rules accepted what Parser calls in sequence refuse")
        return verdicts
    direct = [observe(rule) for rules_ in per_text for rule in rules_]
    if [(r["name"], r["cutoff"], r["neighbourhood"], r["superiors"], normalise(r["conditions"])) for r in got] != \
            [(r["name"], r["cutoff"], r["neighbourhood"], r["superiors"], normalise(r["conditions"])) for r in direct]:
        _fail(verdicts, clause, "different rules")
    else:
        _ok(verdicts, clause)
    return verdicts


_SHIPPED_CACHE: Dict[str, Any] = {}


def judge_shipped() -> Verdicts:
    """(S) strict.txt, relaxed.txt, loose.txt read in that order with the real profile names"""
    global PROFILES, CATEGORIES  # pylint: disable=global-statement
    from antismash.common import path
    from antismash.detection import hmm_detection
    from antismash.detection.hmm_detection.categories import get_rule_categories
    from antismash.detection.hmm_detection.signatures import get_signature_profiles
    names = {sig.name for sig in get_signature_profiles()} | set(hmm_detection.DYNAMIC_PROFILES)
    categories = {cat.name for cat in get_rule_categories()}
    texts = []
    for level in ("strict", "relaxed", "loose"):
        with open(path.get_full_path(hmm_detection.__file__, "cluster_rules", f"{level}.txt"), encoding="utf-8") as handle:
            texts.append(handle.read())
    saved = (PROFILES, CATEGORIES)
    PROFILES, CATEGORIES = sorted(names), sorted(categories)
    try:
        verdicts = judge(texts, [1.0, 1.0])
        if not verdicts:
            expected = reference(texts)
            verdicts["shipped-rule-files-are-read-by-the-reference-reader"] = (
                False, f"reference reader: {expected['verdict']} {expected['why']}")
        noisy_texts = [noisy(ref.tokenise(text), random.Random(5)) for text in texts]
        verdicts.update(metamorphic(texts, noisy_texts, [1.0, 1.0], "whitespace-and-comments-irrelevant"))
    finally:
        PROFILES, CATEGORIES = saved
    return verdicts


def replay(case: Dict[str, Any]) -> List[str]:
    fam = case.get("fam")
    mult = case.get("mult", [1.0, 1.0])
    if fam in ("wf",):
        verdicts = judge(case["texts"], mult)
    elif fam == "cor":
        verdicts = judge(case["texts"], mult, prefix="corrupted: ")
    elif fam == "ill":
        verdicts = _judge_ill(case)
    elif fam == "shipped":
        verdicts = judge_shipped()
    elif fam == "noise":
        verdicts = metamorphic(case["texts"], case["other"], mult, "whitespace-and-comments-irrelevant")
    elif fam == "alias":
        verdicts = metamorphic(case["texts"], case["other"], mult, "aliases-are-textual-substitution", False)
    elif fam == "split":
        verdicts = metamorphic(case["texts"], case["other"], mult, "rules-split-over-files-same-as-one-file")
    elif fam == "create_rules":
        verdicts = judge_create_rules(case["texts"], mult)
    else:
        return [f"unknown case family {fam!r}"]
    return [f"{clause}: {detail}" for clause, (ok, detail) in verdicts.items() if not ok]


# ------------------------------------------------------------------------------------------------
# known findings (classes of INPUTS, decided from the case alone)
# ------------------------------------------------------------------------------------------------

def _negated_group_of_negated_unit(node: Any) -> bool:
    """somewhere: not ( X ) where X, after dropping un-negated brackets, is one negated unit"""
    tag = node[0]
    if tag in ("and", "or"):
        return any(_negated_group_of_negated_unit(op) for op in node[1])
    if tag in ("grp", "cds"):
        if tag == "grp" and node[1]:
            inner = node[2]
            while inner[0] == "grp" and not inner[1]:
                inner = inner[2]
            if inner[0] in ("id", "score", "min", "cds", "grp") and inner[1]:
                return True
        return _negated_group_of_negated_unit(node[2])
    return False


def roundtrip_input_class(case: Dict[str, Any]) -> str:
    """'' or the known-finding class of this input for the regenerated-text clause"""
    if case.get("fam") != "wf":
        return ""
    try:
        expected = reference(case["texts"])
    except RecursionError:
        return ""
    if expected["verdict"] != "well":
        return ""
    mult = case.get("mult", [1.0, 1.0])
    rules = [rule for rules_ in expected["per_text"] for rule in rules_]
    for rule in rules:
        if ref.scaled(rule.cutoff_kb, mult[0]) % 1000 or ref.scaled(rule.neighbourhood_kb, mult[1]) % 1000:
            return "C02-F3"
    for rule in rules:
        if _negated_group_of_negated_unit(rule.conditions):
            return "C02-F4"
    return ""


FINDING_CLASSES: Dict[str, Any] = {
    # an identifier that is not a known profile inside EXTENDERS
    "C02-F1": lambda clause, case: clause in ("rejects-unknown-profile-in-extenders",
                                              "corrupted: rejects-unknown-profile-in-extenders"),
    # an identifier that is not a known profile inside RELATED
    "C02-F2": lambda clause, case: clause in ("rejects-unknown-profile-in-related",
                                              "corrupted: rejects-unknown-profile-in-related"),
    # regenerated text: a scaled cutoff/neighbourhood that is not a whole number of kilobases
    "C02-F3": lambda clause, case: clause.startswith(ROUNDTRIP) and roundtrip_input_class(case) == "C02-F3",
    # regenerated text: 'not (not x)' is printed as 'not not x'
    "C02-F4": lambda clause, case: clause.startswith(ROUNDTRIP) and roundtrip_input_class(case) == "C02-F4",
}
