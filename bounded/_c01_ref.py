"""Private helper of bounded/C01.py and bounded/C02.py.

A SECOND READING OF THE DOCUMENTATION of antismash.common.hmm_rule_parser.rule_parser (its module
docstring) and of the property statements C01/C02 -- not of the parser's code:

  * tokenise / Reader      an independent hand-written reader of the documented rule grammar
                           (own tokeniser, recursive descent, aliases as textual substitution)
  * sem / why              the documented boolean meaning of a condition at a gene and the reason
                           profiles the gene contributes (C01 statement)
  * distance / near_sets   set-of-bases distance on a line / ring, written over intervals
  * render                 AST -> rule text

Condition AST (JSON-able lists):
    ["id",    neg, name]
    ["score", neg, name, minimum_score]
    ["min",   neg, count, [names]]
    ["cds",   neg, inner]
    ["grp",   neg, inner]
    ["and",   [operands]]
    ["or",    [operands]]

Nothing in here imports antismash.
"""
from __future__ import annotations

from fractions import Fraction
from typing import Any, Dict, Iterable, List, Optional, Sequence, Set, Tuple

LOWER_KEYWORDS = ("and", "or", "not", "minimum", "cds", "minscore")
MARKERS = ("RULE", "DESCRIPTION", "EXAMPLE", "RELATED", "CUTOFF", "NEIGHBOURHOOD", "CONDITIONS",
           "SUPERIORS", "CATEGORY", "DEFINE", "EXTENDERS", "AS")
PUNCT = "()[],."
RESERVED_IDS = ("cluster", "score")   # 'cluster' documented; 'score' reserved next to minscore

_ID_FIRST = set("abcdefghijklmnopqrstuvwxyzABCDEFGHIJKLMNOPQRSTUVWXYZ")
_ID_REST = _ID_FIRST | set("0123456789_-")
_DIGITS = set("0123456789")


class IllFormed(Exception):
    """The text is not derivable from the documented grammar / breaks a documented rule.
       .kind names the reason (one of the kinds listed in the C02 statement, or 'syntax')."""

    def __init__(self, kind: str, text: str = "") -> None:
        super().__init__(f"{kind}: {text}")
        self.kind = kind


class Ambiguous(Exception):
    """The documentation does not settle whether this text is well-formed (or what it means);
       no demand is made on the parser for it."""


# ------------------------------------------------------------------------------------------------
# tokens
# ------------------------------------------------------------------------------------------------

def classify(word: str) -> str:
    """kind of a token text: one of the punctuation characters, 'kw' (lower-case operator /
       label), 'marker', 'int', 'int0' (digits that are not [1-9][0-9]*), 'id', 'id?'
       (identifier-like but outside the documented ID form), 'text'."""
    if len(word) == 1 and word in PUNCT:
        return word
    if word in LOWER_KEYWORDS:
        return "kw"
    if word in MARKERS:
        return "marker"
    chars = set(word)
    if chars <= _DIGITS:
        # documented INT = [1-9]{[0-9]}*; a bare 0 is used by the shipped relaxed.txt (CUTOFF 0)
        return "int" if (word[0] != "0" or word == "0") else "int0"
    if chars <= _ID_REST:
        if word in RESERVED_IDS:
            return "text"
        # the module docstring writes ID = [a-zA-Z]{[a-zA-Z0-9_-]}*, the docstring of
        # is_legal_identifier (and the shipped rule files: '2-Hacid_dh_C') allow any of these
        # characters as long as one letter is present
        if chars & _ID_FIRST:
            return "id"
        return "text"
    return "text"


def tokenise(text: str) -> List[str]:
    """whitespace separates symbols; '#' starts a comment that lasts to the end of the line;
       brackets, comma and dot are symbols of their own."""
    tokens: List[str] = []
    for line in text.replace("\r", "\n").split("\n"):
        hash_at = line.find("#")
        if hash_at >= 0:
            line = line[:hash_at]
        word = ""
        for char in line:
            if char.isspace():
                if word:
                    tokens.append(word)
                    word = ""
            elif char in PUNCT:
                if word:
                    tokens.append(word)
                    word = ""
                tokens.append(char)
            else:
                word += char
        if word:
            tokens.append(word)
    return tokens


# ------------------------------------------------------------------------------------------------
# the reader
# ------------------------------------------------------------------------------------------------

class RuleDenotation:
    """What one RULE block denotes."""

    def __init__(self) -> None:
        self.name = ""
        self.category = ""
        self.cutoff_kb = 0
        self.neighbourhood_kb = 0
        self.conditions: Any = None
        self.direct_superiors: List[str] = []
        self.related: List[str] = []
        self.extenders: Any = None
        self.soft: List[str] = []     # documented-but-unchecked-by-this-reader notes

    def to_json(self) -> Dict[str, Any]:
        return {"name": self.name, "category": self.category, "cutoff_kb": self.cutoff_kb,
                "neighbourhood_kb": self.neighbourhood_kb, "conditions": self.conditions,
                "direct_superiors": self.direct_superiors, "related": self.related,
                "extenders": self.extenders}


class Reader:
    """Reads one rule text. State shared over texts (as rule files are read one after the
       other): `aliases` (label -> replacement tokens), `rules` (all denotations so far)."""

    def __init__(self, profiles: Iterable[str], categories: Iterable[str],
                 rules: Optional[List[RuleDenotation]] = None,
                 aliases: Optional[Dict[str, List[str]]] = None,
                 check_profiles_in: Sequence[str] = ("conditions",)) -> None:
        self.profiles = set(profiles)
        self.categories = set(categories)
        self.rules: List[RuleDenotation] = list(rules or [])
        self.aliases: Dict[str, List[str]] = dict(aliases or {})
        self.check_profiles_in = set(check_profiles_in)
        self.toks: List[str] = []
        self.pos = 0
        self.expansions = 0
        # set when an unknown profile is seen in a section not listed in check_profiles_in
        self.unknown_elsewhere: List[Tuple[str, str]] = []

    # -- token access (aliases are substituted when a token is looked at) -----------------------
    def _expand_here(self) -> None:
        """textual substitution: an alias label is replaced by its replacement tokens"""
        while self.pos < len(self.toks) and self.toks[self.pos] in self.aliases:
            self.toks[self.pos:self.pos + 1] = self.aliases[self.toks[self.pos]]
            self.expansions += 1
            if self.expansions > 5000:
                raise Ambiguous("alias loop")

    def peek(self, raw: bool = False) -> Optional[str]:
        if not raw:
            self._expand_here()
        if self.pos < len(self.toks):
            return self.toks[self.pos]
        return None

    def kind(self, raw: bool = False) -> str:
        tok = self.peek(raw)
        return "eof" if tok is None else classify(tok)

    def take(self, raw: bool = False) -> str:
        tok = self.peek(raw)
        if tok is None:
            raise IllFormed("syntax", "unexpected end of text")
        self.pos += 1
        return tok

    def expect(self, literal: str) -> None:
        tok = self.peek()
        if tok != literal:
            raise IllFormed("syntax", f"expected {literal!r}, found {tok!r}")
        self.pos += 1

    def take_id(self, what: str) -> str:
        kind = self.kind()
        if kind == "id?":
            raise Ambiguous(f"identifier outside the documented ID form as {what}")
        if kind != "id":
            raise IllFormed("syntax", f"expected identifier ({what}), found {self.peek()!r}")
        return self.take()

    def take_int(self, what: str) -> int:
        kind = self.kind()
        if kind == "int0":
            raise Ambiguous(f"number with leading zero as {what}")
        if kind != "int":
            raise IllFormed("syntax", f"expected number ({what}), found {self.peek()!r}")
        return int(self.take())

    # -- file level ---------------------------------------------------------------------------
    def read(self, text: str) -> List[RuleDenotation]:
        """Returns the denotations of the RULE blocks of this text (in order); updates
           self.rules / self.aliases. Raises IllFormed / Ambiguous."""
        self.toks = tokenise(text)
        self.pos = 0
        self.expansions = 0
        new: List[RuleDenotation] = []
        if not self.toks:
            raise Ambiguous("empty text")
        while self.peek(raw=True) is not None:
            tok = self.peek(raw=True)
            if tok == "DEFINE":
                self._read_alias()
            elif tok == "RULE":
                rule = self._read_rule()
                new.append(rule)
                self.rules.append(rule)
            else:
                raise IllFormed("syntax", f"expected RULE or DEFINE, found {tok!r}")
        return new

    def _read_alias(self) -> None:
        self.pos += 1  # DEFINE
        label = self.peek(raw=True)
        if label is None:
            raise IllFormed("syntax", "DEFINE at end of text")
        if label in self.aliases:
            raise IllFormed("duplicate-alias", label)
        kind = classify(label)
        if kind == "id?":
            raise Ambiguous("alias label outside the documented ID form")
        if kind != "id":
            raise IllFormed("syntax", f"alias label {label!r}")
        self.pos += 1
        if label in self.profiles:
            raise IllFormed("alias-is-profile", label)
        if any(rule.name == label for rule in self.rules):
            raise IllFormed("alias-is-rule", label)
        if label in self.categories:
            raise Ambiguous("alias label equals a category")
        if self.peek(raw=True) != "AS":
            raise IllFormed("syntax", "expected AS")
        self.pos += 1
        value: List[str] = []
        while self.peek() is not None and self.kind() != "marker":
            if self.kind() in ("text", "id?", "int0"):
                raise Ambiguous("free text in an alias value")
            value.append(self.take())
        if not value:
            raise IllFormed("syntax", "empty alias value")
        if label in value:
            # textual substitution of a label by a text containing the label never ends; the
            # documentation is silent (NB: the real parser loops forever on some such inputs)
            raise Ambiguous("alias value mentions its own label")
        self.aliases[label] = value

    def _read_rule(self) -> RuleDenotation:
        rule = RuleDenotation()
        self.pos += 1  # RULE
        raw_name = self.peek(raw=True)
        if raw_name is not None and raw_name in self.aliases:
            raise IllFormed("rule-name-is-alias", raw_name)
        rule.name = self.take_id("rule name")
        if any(other.name == rule.name for other in self.rules):
            raise IllFormed("duplicate-rule", rule.name)
        self.expect("CATEGORY")
        rule.category = self.take_id("category")
        if rule.category not in self.categories:
            raise IllFormed("unknown-category", rule.category)
        if self.peek() == "DESCRIPTION":
            self.pos += 1
            count = 0
            # free text: everything up to the next section marker; not substituted, not checked
            while self.peek(raw=True) is not None and self.kind(raw=True) != "marker":
                self.pos += 1
                count += 1
            if count == 0:
                raise Ambiguous("empty description")
        while self.peek(raw=True) == "EXAMPLE":
            self._read_example(rule)
        if self.peek(raw=True) == "RELATED":
            self.pos += 1
            rule.related = self._read_ids("related profile")
            if len(set(rule.related)) != len(rule.related):
                raise Ambiguous("repeated related profile")
            for name in rule.related:
                self._profile(name, "related")
        if self.peek(raw=True) == "SUPERIORS":
            self.pos += 1
            rule.direct_superiors = self._read_ids("superior")
            if len(set(rule.direct_superiors)) != len(rule.direct_superiors):
                raise IllFormed("duplicate-superior", ",".join(rule.direct_superiors))
            for name in rule.direct_superiors:
                if not any(other.name == name for other in self.rules):
                    raise IllFormed("superior-undefined", name)
        self.expect("CUTOFF")
        rule.cutoff_kb = self.take_int("cutoff")
        self.expect("NEIGHBOURHOOD")
        rule.neighbourhood_kb = self.take_int("neighbourhood")
        self.expect("CONDITIONS")
        rule.conditions = self._read_or(in_cds=False, section="conditions")
        if self.peek() == "EXTENDERS":
            self.pos += 1
            rule.extenders = self._read_extenders()
        nxt = self.peek(raw=True)
        if nxt is not None and nxt not in ("RULE", "DEFINE"):
            # an alias label here would be substituted and can never start a rule
            raise IllFormed("syntax", f"unexpected {nxt!r} after the conditions")
        verdict = positive_requirement(rule.conditions)
        if verdict is None:
            raise Ambiguous("positive requirement only below an even number of negations")
        if not verdict:
            raise IllFormed("no-positive-requirement", render(rule.conditions))
        return rule

    def _read_example(self, rule: RuleDenotation) -> None:
        self.pos += 1  # EXAMPLE
        database = self.take_id("example database")
        if database != "NCBI":
            raise Ambiguous("example database other than NCBI")
        self.take_id("example accession")
        self.expect(".")
        self.take_int("example version")
        span = self.take()
        parts = span.split("-")
        if len(parts) != 2 or not all(part and set(part) <= _DIGITS for part in parts):
            raise IllFormed("syntax", f"example range {span!r}")
        if int(parts[0]) > int(parts[1]):
            raise Ambiguous("example range backwards")
        while self.peek(raw=True) is not None and self.kind(raw=True) != "marker":
            self.pos += 1
        rule.soft.append("example")

    def _read_ids(self, what: str) -> List[str]:
        names = [self.take_id(what)]
        while self.peek() == ",":
            self.pos += 1
            names.append(self.take_id(what))
        return names

    def _profile(self, name: str, section: str) -> None:
        if name in self.profiles:
            return
        if section in self.check_profiles_in:
            raise IllFormed("unknown-profile", f"{name} in {section}")
        self.unknown_elsewhere.append((section, name))

    # -- conditions ---------------------------------------------------------------------------
    def _read_or(self, in_cds: bool, section: str) -> Any:
        operands = [self._read_and(in_cds, section)]
        while self.peek() == "or":
            self.pos += 1
            operands.append(self._read_and(in_cds, section))
        _reject_repeats(operands)
        return operands[0] if len(operands) == 1 else ["or", operands]

    def _read_and(self, in_cds: bool, section: str) -> Any:
        operands = [self._read_unit(in_cds, section)]
        while self.peek() == "and":
            self.pos += 1
            operands.append(self._read_unit(in_cds, section))
        _reject_repeats(operands)
        return operands[0] if len(operands) == 1 else ["and", operands]

    def _read_unit(self, in_cds: bool, section: str) -> Any:
        neg = False
        if self.peek() == "not":
            self.pos += 1
            neg = True
        tok = self.peek()
        if tok is None:
            raise IllFormed("syntax", "conditions end early")
        if tok == "(":
            self.pos += 1
            inner = self._read_or(in_cds, section)
            if self.peek() != ")":
                raise IllFormed("unbalanced-group", f"expected ')', found {self.peek()!r}")
            self.pos += 1
            return ["grp", neg, inner]
        if tok == "minscore":
            self.pos += 1
            self.expect("(")
            name = self.take_id("minscore profile")
            self._profile(name, section)
            self.expect(",")
            score = self.take_int("minscore value")
            self.expect(")")
            return ["score", neg, name, score]
        if tok == "minimum":
            if in_cds:
                raise IllFormed("syntax", "minimum inside cds")
            self.pos += 1
            self.expect("(")
            count = self.take_int("minimum count")
            self.expect(",")
            self.expect("[")
            names = self._read_ids("minimum option")
            self.expect("]")
            self.expect(")")
            if len(set(names)) != len(names):
                raise IllFormed("repeated-operand", "duplicate id in a minimum list")
            for name in names:
                self._profile(name, section)
            return ["min", neg, count, names]
        if tok == "cds":
            if in_cds:
                raise IllFormed("syntax", "cds inside cds")
            self.pos += 1
            return ["cds", neg, self._read_cds_body(section)]
        if self.kind() in ("id", "id?"):
            name = self.take_id("profile")
            self._profile(name, section)
            return ["id", neg, name]
        raise IllFormed("syntax", f"unexpected {tok!r} in conditions")

    def _read_cds_body(self, section: str) -> Any:
        self.expect("(")
        if self.peek() == ")":
            raise IllFormed("syntax", "empty cds")
        inner = self._read_or(True, section)
        if self.peek() != ")":
            raise IllFormed("unbalanced-group", f"expected ')' of cds, found {self.peek()!r}")
        self.pos += 1
        if inner[0] == "id":
            raise IllFormed("syntax", "cds of a single identifier")
        if inner[0] not in ("and", "or"):
            # cds(minscore(..)) / cds((a and b)): the formal grammar wants ID BINARY_OP ...
            raise Ambiguous("cds without a binary operator at its top level")
        return inner

    def _read_extenders(self) -> Any:
        tok = self.peek()
        if tok == "cds":
            self.pos += 1
            inner = self._read_cds_body("extenders")
            verdict = positive_requirement(["cds", False, inner])
            if not verdict:
                raise Ambiguous("extenders without a positive requirement")
            return ["cds", False, inner]
        if self.kind() == "id":
            name = self.take_id("extender profile")
            self._profile(name, "extenders")
            nxt = self.peek(raw=True)
            if nxt is not None and nxt not in ("RULE", "DEFINE"):
                raise Ambiguous("more than one identifier after EXTENDERS without cds()")
            return ["id", False, name]
        if tok is None:
            raise IllFormed("syntax", "EXTENDERS at end of text")
        if self.kind() == "marker":
            raise IllFormed("syntax", "EXTENDERS without a condition")
        raise Ambiguous("EXTENDERS form other than ID or cds(...)")


def _reject_repeats(operands: List[Any]) -> None:
    """repeated operand of one and/or chain: the same operand text twice is ill-formed; operands
       that only differ by redundant brackets or by the listing order inside minimum([...]) are
       not settled by the documentation."""
    texts = [render(op) for op in operands]
    if len(set(texts)) != len(texts):
        raise IllFormed("repeated-operand", " | ".join(texts))
    loose = [render(strip_redundant(op)) for op in operands]
    if len(set(loose)) != len(loose):
        raise Ambiguous("operands equal up to redundant brackets / listing order")


def strip_redundant(node: Any) -> Any:
    """drops un-negated groups (and negated groups of a single negatable unit are folded)"""
    tag = node[0]
    if tag == "grp":
        inner = strip_redundant(node[2])
        if not node[1]:
            return inner
        if inner[0] in ("id", "score", "min", "cds"):
            flipped = list(inner)
            flipped[1] = not inner[1]
            return flipped
        return ["grp", True, inner]
    if tag == "cds":
        return ["cds", node[1], strip_redundant(node[2])]
    if tag in ("and", "or"):
        return [tag, [strip_redundant(op) for op in node[1]]]
    if tag == "min":
        return ["min", node[1], node[2], sorted(node[3])]    # the listing order carries no meaning
    return node


def positive_requirement(node: Any) -> Optional[bool]:
    """'At least one positive requirement must exist' (documented with the examples `not a`,
       `not a and not c`, `not (a or c)` versus `a`, `a and not c`, `(a or not c)`).
       True: some profile requirement sits below no negation at all. False: every requirement
       sits below an odd number of negations. None: no requirement is free of negations but some
       sit below an even number of them, e.g. `not (a and not b)` -- the documentation is silent."""
    depths = _positive_scan(node, 0)
    if 0 in depths:
        return True
    if any(depth % 2 == 0 for depth in depths):
        return None
    return False


def _positive_scan(node: Any, negations: int) -> Set[int]:
    tag = node[0]
    if tag in ("id", "score", "min"):
        return {negations + (1 if node[1] else 0)}
    if tag in ("cds", "grp"):
        return _positive_scan(node[2], negations + (1 if node[1] else 0))
    found: Set[int] = set()
    for operand in node[1]:
        found |= _positive_scan(operand, negations)
    return found


# ------------------------------------------------------------------------------------------------
# rendering
# ------------------------------------------------------------------------------------------------

def render(node: Any) -> str:
    """canonical single-line text of a condition AST"""
    return " ".join(render_tokens(node)).replace("( ", "(").replace(" )", ")") \
        .replace("[ ", "[").replace(" ]", "]").replace(" ,", ",").replace("cds (", "cds(") \
        .replace("minimum (", "minimum(").replace("minscore (", "minscore(")


def render_tokens(node: Any) -> List[str]:
    tag = node[0]
    if tag in ("and", "or"):
        out: List[str] = []
        for index, operand in enumerate(node[1]):
            if index:
                out.append(tag)
            out.extend(render_tokens(operand))
        return out
    pre = ["not"] if node[1] else []
    if tag == "id":
        return pre + [node[2]]
    if tag == "score":
        return pre + ["minscore", "(", node[2], ",", str(node[3]), ")"]
    if tag == "min":
        names: List[str] = []
        for index, name in enumerate(node[3]):
            if index:
                names.append(",")
            names.append(name)
        return pre + ["minimum", "(", str(node[2]), ",", "["] + names + ["]", ")"]
    if tag == "cds":
        return pre + ["cds", "("] + render_tokens(node[2]) + [")"]
    if tag == "grp":
        return pre + ["("] + render_tokens(node[2]) + [")"]
    raise ValueError(f"bad node {node!r}")


def profiles_of(node: Any) -> List[str]:
    """profiles mentioned, in order of first appearance"""
    out: List[str] = []

    def walk(sub: Any) -> None:
        tag = sub[0]
        if tag in ("id", "score"):
            if sub[2] not in out:
                out.append(sub[2])
        elif tag == "min":
            for name in sub[3]:
                if name not in out:
                    out.append(name)
        elif tag in ("cds", "grp"):
            walk(sub[2])
        else:
            for operand in sub[1]:
                walk(operand)
    walk(node)
    return out


def score_profiles_of(node: Any, inside_cds_only: bool = False) -> List[str]:
    """profiles used by a minscore (optionally only those written inside a cds group)"""
    out: List[str] = []

    def walk(sub: Any, in_cds: bool) -> None:
        tag = sub[0]
        if tag == "score":
            if (in_cds or not inside_cds_only) and sub[2] not in out:
                out.append(sub[2])
        elif tag == "cds":
            walk(sub[2], True)
        elif tag == "grp":
            walk(sub[2], in_cds)
        elif tag in ("and", "or"):
            for operand in sub[1]:
                walk(operand, in_cds)
    walk(node, False)
    return out


def has_operator(node: Any) -> bool:
    """anything beyond a bare profile name"""
    return not (node[0] == "id" and not node[1])


def read_condition(text: str, profiles: Iterable[str]) -> Any:
    """reads a bare CONDITIONS text with the reference reader"""
    reader = Reader(profiles, {"cat"})
    rules = reader.read(f"RULE r CATEGORY cat CUTOFF 1 NEIGHBOURHOOD 1 CONDITIONS {text}")
    return rules[0].conditions


# ------------------------------------------------------------------------------------------------
# geometry: set-of-bases distance, written over intervals
# ------------------------------------------------------------------------------------------------

def distance(first: Sequence[Sequence[int]], second: Sequence[Sequence[int]], ring: int = 0) -> int:
    """number of bases strictly between the two sets of bases, the shorter way round when
       `ring` (the record length) is given; 0 when they share a base or touch.
       first/second: lists of parts [start, end, ...] (half-open)."""
    best: Optional[int] = None
    for part_a in first:
        for part_b in second:
            a_start, a_end = part_a[0], part_a[1]
            b_start, b_end = part_b[0], part_b[1]
            if a_start < b_end and b_start < a_end:
                return 0
            if a_end <= b_start:
                gap = b_start - a_end
                around = (ring - b_end) + a_start
            else:
                gap = a_start - b_end
                around = (ring - a_end) + b_start
            if ring:
                gap = min(gap, around)
            if best is None or gap < best:
                best = gap
    assert best is not None
    return best


def distance_by_sets(first: Sequence[Sequence[int]], second: Sequence[Sequence[int]],
                     ring: int = 0) -> int:
    """the same by brute force over sets of bases (for small coordinates; self-check only)"""
    bases_a = {x for part in first for x in range(part[0], part[1])}
    bases_b = {x for part in second for x in range(part[0], part[1])}
    if bases_a & bases_b:
        return 0
    best = None
    for x in bases_a:
        for y in bases_b:
            between = abs(x - y) - 1
            if ring:
                between = min(between, ring - abs(x - y) - 1)
            if best is None or between < best:
                best = between
    assert best is not None
    return best


def near_sets(genes: Sequence[Sequence[Sequence[int]]], cutoff: int, ring: int) -> List[Set[int]]:
    """near[g] = the other genes closer than the cutoff to gene g"""
    count = len(genes)
    near: List[Set[int]] = [set() for _ in range(count)]
    for i in range(count):
        for j in range(i + 1, count):
            if distance(genes[i], genes[j], ring) < cutoff:
                near[i].add(j)
                near[j].add(i)
    return near


# ------------------------------------------------------------------------------------------------
# documented meaning (C01 statement)
# ------------------------------------------------------------------------------------------------

class World:
    """hits[g] = list of (profile, bitscore); near[g] = set of other genes in range of g"""

    def __init__(self, hits: Sequence[Sequence[Sequence[Any]]], near: Sequence[Set[int]]) -> None:
        self.count = len(hits)
        self.scores: List[Dict[str, List[float]]] = []
        for gene_hits in hits:
            table: Dict[str, List[float]] = {}
            for profile, score in gene_hits:
                table.setdefault(profile, []).append(score)
            self.scores.append(table)
        self.near = [set(n) for n in near]


def sem(node: Any, world: World, gene: int, local: bool = False) -> bool:
    """truth of the condition at `gene`; local = only that single gene may supply hits"""
    tag = node[0]
    if tag == "and":
        return all(sem(op, world, gene, local) for op in node[1])
    if tag == "or":
        return any(sem(op, world, gene, local) for op in node[1])
    scope = [gene] if local else [gene] + sorted(world.near[gene])
    if tag == "id":
        value = any(node[2] in world.scores[g] for g in scope)
    elif tag == "score":
        value = any(score >= node[3] for g in scope for score in world.scores[g].get(node[2], []))
    elif tag == "min":
        total = sum(1 for g in scope for name in node[3] if name in world.scores[g])
        value = total >= node[2]
    elif tag == "cds":
        value = any(sem(node[2], world, g, True) for g in scope)
    elif tag == "grp":
        value = sem(node[2], world, gene, local)
    else:
        raise ValueError(f"bad node {node!r}")
    return value != bool(node[1])


def why(node: Any, world: World, gene: int) -> Set[str]:
    """the reason profiles `gene` itself contributes"""
    tag = node[0]
    if tag in ("and", "or"):
        out: Set[str] = set()
        for operand in node[1]:
            out |= why(operand, world, gene)
        return out
    own = world.scores[gene]
    if tag == "id":
        return {node[2]} if node[2] in own else set()
    if tag == "score":
        return {node[2]} if any(score >= node[3] for score in own.get(node[2], [])) else set()
    if tag == "min":
        return {name for name in node[3] if name in own}
    if tag == "cds":
        return why(node[2], world, gene) if sem(node[2], world, gene, True) else set()
    if tag == "grp":
        return why(node[2], world, gene)
    raise ValueError(f"bad node {node!r}")


def anchors(node: Any, world: World, gene: int) -> Tuple[bool, Set[str]]:
    """(gene anchors the rule, reason profiles of the gene)"""
    reasons = why(node, world, gene)
    return (sem(node, world, gene) and bool(reasons)), reasons


def scaled(kilobases: int, multiplier: float) -> Fraction:
    """kilobases scaled by a multiplier, in bases, exactly"""
    return Fraction(kilobases) * 1000 * Fraction(multiplier)
