"""Record factory shared by the bounded stand-ins C10 and C12.

A *spec* is a small JSON-able dict; `build(spec)` turns it into a real
`antismash.common.secmet.Record` the way the pipeline does:

  1. an input GenBank text (header, source/gene/CDS/misc features, sequence with real ORFs at the
     gene positions) is written with Biopython and parsed again (like `parse_input_sequence`),
  2. `Record.from_biopython(parsed, taxon)` (real constructors for the input features),
  3. detection results are added with the real feature classes and the real `Record.add_*`, modelled on
     the code of the detection modules (sec_met domains and CORE gene functions on rule anchors,
     protoclusters from `connect_locations` + `extend_location`, sideloaded areas via the sideloader's own
     `to_secmet`, subregions, misc features),
  4. `record.create_candidate_clusters()` and `record.create_regions()`,
  5. analysis annotations (PFAM / TIGR / modular aSDomains, CDS motifs, modules, prepeptides, gene
     functions, notes) - like in the pipeline only on genes that lie inside a region, except PFAM hits.

Spec keys
  L      record length            circ   0/1 topology           seed  sequence seed
  taxon  "bacteria" | "fungi"
  genes  [{"n": name, "p": [[s,e],...] parts in biological (5'->3') order, "s": 1|-1,
           "cs": 0|1|2|3 codon_start qualifier (0 = absent), "fz": 0|1 fuzzy outer end,
           "g": 0|1 also a `gene` feature, "note": 0|1 input /note, "a": [decoration codes]}]
  rules  [{"prod": str, "cat": str, "anchors": [gene names], "cut": int, "nb": int,
           "side": 0|1 (sideloaded protocluster covering the anchors), "t2": 0|1}]
  subs   [{"p": [[s,e],...], "tool": str, "label": str, "side": 0|1}]
  misc   list of codes for extra generic features ("tta", "tfbs", "extmotif", "inmisc", "ordfwd", "ordrev")
  (genes may carry "op": "order" for the GenBank order(...) operator; decoration codes may end in "z" for
   the boundary values 0.0 of E-value / score / masses)
  areas  0 -> do not create candidate clusters/regions (default 1)
  sub_like_rule  1 -> additionally a subregion with exactly the location of the first protocluster
"""
from __future__ import annotations

import io
import random
from typing import Any

_COMPLEMENT = {"A": "T", "C": "G", "G": "C", "T": "A"}
_STOPS = {"TAA", "TAG", "TGA"}
_HEADER = {
    "molecule_type": "DNA",
    "data_file_division": "BCT",
    "date": "01-JAN-2020",
    "accessions": ["VERIF001"],
    "sequence_version": 1,
    "keywords": [""],
    "source": "Streptomyces verificans",
    "organism": "Streptomyces verificans",
    "taxonomy": ["Bacteria", "Actinomycetota", "Streptomyces"],
}


def gene_positions(gene: dict) -> list[int]:
    """ Base positions of a gene in transcription order (independent of antismash). """
    out: list[int] = []
    for start, end in gene["p"]:
        if gene["s"] == 1:
            out.extend(range(start, end))
        else:
            out.extend(range(end - 1, start - 1, -1))
    return out


def make_sequence(spec: dict) -> str:
    """ Random ACGT sequence in which every gene of the spec is an open reading frame
        (ATG ... stop in the frame given by codon_start), later genes overwrite earlier ones. """
    rng = random.Random(1_000_003 * (int(spec.get("seed", 0)) + 1) + spec["L"])
    seq = [rng.choice("ACGT") for _ in range(spec["L"])]
    for gene in spec["genes"]:
        positions = gene_positions(gene)
        frame = max(0, int(gene.get("cs", 0)) - 1)
        coding = positions[frame:]
        ncodons = len(coding) // 3
        codons = []
        for i in range(ncodons):
            while True:
                codon = "".join(rng.choice("ACGT") for _ in range(3))
                if codon not in _STOPS:
                    break
            codons.append(codon)
        if codons and not gene.get("cs"):
            codons[0] = "ATG"
        if codons and not gene.get("fz"):
            codons[-1] = "TAA"
        for pos, base in zip(coding, "".join(codons)):
            seq[pos] = base if gene["s"] == 1 else _COMPLEMENT[base]
    return "".join(seq)


def _bio_location(parts: list, strand: int, fuzzy: int = 0, operator: str = "join"):
    from Bio.SeqFeature import AfterPosition, BeforePosition, CompoundLocation, SimpleLocation
    locs = []
    for start, end in parts:
        locs.append(SimpleLocation(start, end, strand))
    if fuzzy:
        # the outer (5') end of a partial gene is fuzzy
        first = locs[0]
        if strand == 1:
            locs[0] = SimpleLocation(BeforePosition(int(first.start)), first.end, strand)
        else:
            locs[0] = SimpleLocation(first.start, AfterPosition(int(first.end)), strand)
    if len(locs) == 1:
        return locs[0]
    return CompoundLocation(locs, operator=operator)


def input_genbank(spec: dict) -> str:
    """ The GenBank text of the un-annotated input record. """
    from Bio import SeqIO
    from Bio.Seq import Seq
    from Bio.SeqFeature import SeqFeature, SimpleLocation
    from Bio.SeqRecord import SeqRecord

    length = spec["L"]
    annotations = {key: (list(val) if isinstance(val, list) else val) for key, val in _HEADER.items()}
    annotations["topology"] = "circular" if spec.get("circ") else "linear"
    record = SeqRecord(Seq(make_sequence(spec)), id="VERIF001.1", name="VERIF001",
                       description="synthetic record for round trips", annotations=annotations)
    features = [SeqFeature(SimpleLocation(0, length, 1), type="source",
                           qualifiers={"organism": ["Streptomyces verificans"], "mol_type": ["genomic DNA"],
                                       "db_xref": ["taxon:1234"]})]
    for gene in spec["genes"]:
        location = _bio_location(gene["p"], gene["s"], gene.get("fz", 0), gene.get("op", "join"))
        # long identifiers are locus tags (e.g. 'GCF_000123456_1_ASM12345v1_NZ_CP012345_1_cds_0001234');
        # gene names and protein ids stay short, as in real annotations
        short = gene["n"] if len(gene["n"]) <= 12 else "gn" + gene["n"][-4:]
        if gene.get("g"):
            features.append(SeqFeature(location, type="gene",
                                       qualifiers={"locus_tag": [gene["n"]], "gene": [short + "G"]}))
        quals: dict[str, list[str]] = {"locus_tag": [gene["n"]], "product": [f"protein {short}"]}
        if gene.get("g"):
            quals["gene"] = [short + "G"]
            quals["protein_id"] = [f"P_{short}.1"]
        if gene.get("cs"):
            quals["codon_start"] = [str(gene["cs"])]
        if gene.get("note"):
            quals["note"] = [f"input note of {gene['n']}"]
        features.append(SeqFeature(location, type="CDS", qualifiers=quals))
    for code in spec.get("misc", []):
        if code == "inmisc":
            features.append(SeqFeature(SimpleLocation(3, 9, -1), type="misc_feature",
                                       qualifiers={"note": ["an input misc feature"]}))
        elif code == "extmotif":
            features.append(SeqFeature(SimpleLocation(6, 12, 1), type="CDS_motif",
                                       qualifiers={"note": ["external motif"], "label": ["ext"]}))
        elif code in ("ordfwd", "ordrev"):
            # a generic input feature whose parts are given with the GenBank order(...) operator
            strand = 1 if code == "ordfwd" else -1
            parts = [[3, 9], [12, 18], [length - 12, length - 3]]
            features.append(SeqFeature(_bio_location(parts if strand == 1 else parts[::-1], strand, 0, "order"),
                                       type="misc_feature", qualifiers={"note": [f"{code}: parts in order"]}))
    record.features = features
    handle = io.StringIO()
    SeqIO.write([record], handle, "genbank")
    return handle.getvalue()


# ---------------------------------------------------------------------------------------------
# decorations


def _sub_location(cds: Any, start: int, end: int) -> Any:
    return cds.get_sub_location_from_protein_coordinates(start, end)


def _decorate_gene(record: Any, cds: Any, code: str, counter: dict) -> None:
    # pylint: disable=too-many-locals,too-many-branches,too-many-statements
    from antismash.common.secmet.features import CDSMotif, Module, PFAMDomain, Prepeptide
    from antismash.common.secmet.locations import FeatureLocation
    from antismash.common.secmet.qualifiers import GeneFunction, GOQualifier
    from antismash.detection.nrps_pks_domains.modular_domain import ModularDomain
    from antismash.detection.tigrfam.tigr_domain import TIGRDomain

    # a trailing "z": the same annotation with the boundary values HMMER and the RiPP modules can report
    # (E-value underflown to 0.0, score 0.0, masses 0.0, no alternative weights)
    zero = code.endswith("z")
    code = code.rstrip("z")
    name = cds.get_name()
    aa_len = len(cds.translation)
    codons = len(cds.location) // 3
    top = max(2, min(aa_len, codons))

    if code == "F":      # gene functions as written by detection.genefunctions ("<id>: <description>")
        cds.gene_functions.add(GeneFunction.TRANSPORT, "smcogs", "SMCOG1000: ABC transporter ATP-binding protein")
        cds.gene_functions.add(GeneFunction.RESISTANCE, "resist", "RF0007: beta-lactamase")
    elif code == "f":    # gene functions without id prefix
        cds.gene_functions.add(GeneFunction.REGULATORY, "smcogs", "SMCOG1057 TetR family transcriptional regulator")
        cds.gene_functions.add(GeneFunction.ADDITIONAL, "t2pks", "KSB")
    elif code == "N":    # like smcog_trees.add_to_record
        cds.notes.append(f"smCOG tree PNG image: smcogs/{name}.png")
    elif code == "P":    # like common.hmmer.HmmerResults.add_to_record
        counter["pfam"] = counter.get("pfam", 0) + 1
        p_start, p_end = 1, min(top, 5)
        pfam = PFAMDomain(_sub_location(cds, p_start, p_end), description="Beta-ketoacyl synthase, N-terminal",
                          protein_location=FeatureLocation(p_start, p_end), identifier="PF00109.29",
                          tool="full_hmmer", locus_tag=name)
        pfam.label = "ketoacyl-synt"
        pfam.domain = "ketoacyl-synt"
        pfam.evalue = 0.0 if zero else 1.3e-20
        pfam.score = 0.0 if zero else 75.5
        pfam.translation = cds.translation[p_start:p_end] or "M"
        pfam.database = "35.0"
        pfam.detection = "hmmscan"
        pfam.domain_id = f"full_hmmer_{name}_{counter['pfam']:04d}"
        pfam.gene_ontologies = GOQualifier({"GO:0003824": "catalytic activity",
                                            "GO:0006633": "fatty acid biosynthetic process"})
        record.add_pfam_domain(pfam)
    elif code == "T":    # like detection.tigrfam
        counter["tigr"] = counter.get("tigr", 0) + 1
        p_start, p_end = 0, min(top, 4)
        tigr = TIGRDomain(_sub_location(cds, p_start, p_end), description="radical SAM protein",
                          protein_location=FeatureLocation(p_start, p_end), identifier="TIGR03973",
                          locus_tag=name)
        tigr.label = "six_Cys_in_45"
        tigr.domain = "six_Cys_in_45"
        tigr.evalue = 0.0 if zero else 2.0e-5
        tigr.score = 0.0 if zero else 33.1
        tigr.translation = cds.translation[p_start:p_end] or "M"
        tigr.detection = "hmmscan"
        tigr.database = "TIGRFam.hmm"
        tigr.domain_id = f"tigrfam_{name}_{counter['tigr']:04d}"
        record.add_antismash_domain(tigr)
    elif code in ("D", "X1", "X2"):   # like detection.nrps_pks_domains (domains, motif, module)
        from antismash.common.secmet.qualifiers.nrps_pks import _HMMResultLike
        hits = [("PKS_KS", 0, min(3, top - 1), ["PKS_KS", "Modular-KS"]), ("PKS_AT", min(4, top - 1), top, ["PKS_AT"])]
        if code == "X1":
            hits = [("PKS_KS", 0, top, ["PKS_KS", "Trans-AT-KS"])]
        if code == "X2":
            hits = [("ACP", 0, top, ["ACP"])]
        made = []
        counts: dict[str, int] = {}
        for hit_id, q_start, q_end, detailed in hits:
            if q_end <= q_start:
                continue
            domain = ModularDomain(_sub_location(cds, q_start, q_end),
                                   protein_location=FeatureLocation(q_start, q_end), locus_tag=name)
            domain.domain = hit_id
            domain.subtypes = detailed[1:]
            domain.detection = "hmmscan"
            domain.database = "nrpspksdomains.hmm"
            domain.evalue = 0.0 if zero else 1.5e-30
            domain.score = 0.0 if zero else 101.2
            domain.translation = cds.translation[q_start:q_end] or "M"
            counts[hit_id] = counts.get(hit_id, 0) + 1
            domain.domain_id = f"nrpspksdomains_{name}_{hit_id}.{counts[hit_id]}"
            domain.label = f"{name}_{hit_id}.{counts[hit_id]}"
            if hit_id == "PKS_AT":
                domain.specificity = ["consensus: mal", "PKS signature: Malonyl-CoA"]
            record.add_antismash_domain(domain)
            cds.nrps_pks.add_domain(_HMMResultLike(hit_id, q_start, q_end, domain.evalue, domain.score, detailed),
                                    domain.domain_id)
            made.append(domain)
        cds.nrps_pks.type = "Type I Modular PKS"
        if code == "D":
            m_start, m_end = 1, min(top, 3)
            motif = CDSMotif(_sub_location(cds, m_start, m_end), name, FeatureLocation(m_start, m_end),
                             tool="nrps_pks_domains")
            motif.label = "PKSI-KS_m3"
            motif.domain_id = f"nrpspksmotif_{name}_0001"
            motif.evalue = 0.0 if zero else 4.4e-3
            motif.score = 0.0 if zero else 12.0
            motif.detection = "hmmscan"
            motif.database = "abmotifs"
            motif.translation = cds.translation[m_start:m_end] or "M"
            record.add_cds_motif(motif)
            if made:
                location = record.connect_locations([dom.location for dom in made]) if len(made) > 1 else made[0].location
                try:
                    location = _sub_location(cds, made[0].protein_location.start, made[-1].protein_location.end)
                except ValueError:
                    pass
                module = Module(location, made, module_type=Module.types.PKS, complete=len(made) > 1,
                                starter=True, iterative=False)
                if len(made) > 1:
                    module.add_monomer("mal", "mal")
                record.add_module(module)
        counter.setdefault("x", []).extend(made if code in ("X1", "X2") else [])
    elif code in ("R0", "R1", "R2", "R3"):   # prepeptides like modules.lanthipeptides / sactipeptides
        # R0 core only, R1 leader + core, R2 leader + core + tail, R3 core + tail
        total = codons
        translation = cds.translation + "X" * max(0, total - aa_len)
        leader_len = {"R0": 0, "R1": min(3, total - 2), "R2": min(3, total - 3), "R3": 0}[code]
        tail_len = 2 if code in ("R2", "R3") else 0
        leader = translation[:leader_len]
        core = translation[leader_len:total - tail_len]
        tail = translation[total - tail_len:total] if tail_len else ""
        peptide = Prepeptide(cds.location, "lanthipeptide", core, f"{name}_lanthipeptide", "lanthipeptides", "Class II",
                             score=0.0 if zero else 12.5, monoisotopic_mass=0.0 if zero else 1234.5,
                             molecular_weight=0.0 if zero else 1236.7,
                             alternative_weights=[] if zero else [1254.7, 1272.7], leader=leader, tail=tail)
        record.add_cds_motif(peptide)
        cds.gene_functions.add(GeneFunction.ADDITIONAL, "lanthipeptides", "predicted lanthipeptide")
    else:
        raise ValueError(f"unknown decoration {code!r}")


def _add_misc(record: Any, code: str) -> None:
    from antismash.common.secmet.features import Feature
    from antismash.common.secmet.locations import CompoundLocation, FeatureLocation
    length = len(record)
    if code == "tta":       # like modules.tta
        feature = Feature(FeatureLocation(21, 24, 1), feature_type="misc_feature", created_by_antismash=True)
        feature.notes.append("tta leucine codon, possible target for bldA regulation")
        record.add_feature(feature)
    elif code == "tfbs":    # like modules.tfbs_finder (origin-wrapping hit on circular records)
        if record.is_circular():
            location = CompoundLocation([FeatureLocation(length - 4, length, -1), FeatureLocation(0, 5, -1)])
        else:
            location = FeatureLocation(length - 9, length, -1)
        feature = Feature(location, feature_type="misc_feature", created_by_antismash=True)
        feature.notes.append("TFBS match to ZuR, Zinc-responsive repressor, confidence: strong, score: 21.85")
        record.add_feature(feature)
    elif code in ("inmisc", "extmotif", "ordfwd", "ordrev"):
        pass  # part of the input text
    else:
        raise ValueError(f"unknown misc code {code!r}")


def _location_from_parts(parts: list, strand: int = 1) -> Any:
    from antismash.common.secmet.locations import CompoundLocation, FeatureLocation
    locs = [FeatureLocation(start, end, strand) for start, end in parts]
    return locs[0] if len(locs) == 1 else CompoundLocation(locs)


def build(spec: dict) -> Any:
    """ spec -> annotated secmet Record (see module docstring) """
    # pylint: disable=too-many-locals,too-many-branches
    import antismash.detection.nrps_pks_domains.modular_domain  # noqa: F401  registers aSDomain variants
    import antismash.detection.tigrfam.tigr_domain  # noqa: F401
    from Bio import SeqIO
    from antismash.common.secmet import Record
    from antismash.common.secmet.features import Protocluster, SubRegion
    from antismash.common.secmet.qualifiers import GeneFunction, SecMetQualifier
    from antismash.common.secmet.qualifiers.t2pks import T2PKSQualifier
    from antismash.detection.sideloader.data_structures import (
        ProtoclusterAnnotation, SubRegionAnnotation, Tool,
    )

    text = input_genbank(spec)
    bio = next(SeqIO.parse(io.StringIO(text), "genbank"))
    record = Record.from_biopython(bio, spec.get("taxon", "bacteria"))
    record.record_index = 1
    length = len(record)
    circular = record.is_circular()

    for code in spec.get("misc", []):
        _add_misc(record, code)

    tool = Tool("verif-tool", "1.0", "external annotations", {"param": ["1"]})
    for rule in spec.get("rules", []):
        anchors = [record.get_cds_by_name(name) for name in rule["anchors"]]
        core = record.connect_locations([cds.location for cds in anchors])
        if rule.get("side"):
            if len(core.parts) > 1:
                core_start, core_end = core.parts[0].start, core.parts[-1].end
            else:
                core_start, core_end = core.start, core.end
            left = right = rule["nb"]
            if not circular:
                left = min(left, core_start)
                right = min(right, length - core_end)
            elif len(core) + left + right >= length:
                left = right = max(0, (length - len(core)) // 2 - 1)
            annotation = ProtoclusterAnnotation(int(core_start), int(core_end), rule["prod"], tool, {},
                                                left, right, circular_origin=length if circular else None)
            sideloaded = annotation.to_secmet()
            if any(len(part) == 0 for part in sideloaded.location.parts + sideloaded.core_location.parts):
                # the sideloader builds an empty second part for an area ending exactly at the end of a
                # circular record: not a well-formed input for the properties checked here
                raise ValueError("sideloaded area with an empty part")
            record.add_protocluster(sideloaded)
            continue
        surrounds = record.extend_location(core, rule["nb"])
        domain_name = f"{rule['prod']}_dom"
        for cds in anchors:     # like CDSResults.annotate
            domains = [SecMetQualifier.Domain(domain_name, 1.2e-25, 88.5, 30, "rule-based-clusters")]
            if not cds.sec_met:
                cds.sec_met = SecMetQualifier(domains)
            else:
                cds.sec_met.add_domains(domains)
            cds.gene_functions.add(GeneFunction.CORE, "rule-based-clusters", domain_name, rule["prod"])
        proto = Protocluster(core, surrounding_location=surrounds, tool="rule-based-clusters",
                             cutoff=rule["cut"], neighbourhood_range=rule["nb"], product=rule["prod"],
                             detection_rule=f"({domain_name} or minimum(2, [a, b]))",
                             product_category=rule["cat"])
        if rule.get("t2"):
            proto.t2pks = T2PKSQualifier(["acetyl-CoA"], ["7", "8"], ["angucycline"], {"acetyl-CoA_7": 342.3})
        record.add_protocluster(proto)

    if spec.get("sub_like_rule") and record.get_protoclusters():
        twin = record.get_protoclusters()[0]
        record.add_subregion(SubRegion(twin.location, "cassis", label=spec["rules"][0]["anchors"][0]))

    for sub in spec.get("subs", []):
        if sub.get("side"):
            parts = sub["p"]
            annotation = SubRegionAnnotation(parts[0][0], parts[-1][1], sub.get("label", ""), tool,
                                             {"extra": ["detail one", "detail two"]},
                                             circular_origin=length if circular else None)
            sideloaded_sub = annotation.to_secmet()
            if any(len(part) == 0 for part in sideloaded_sub.location.parts):
                raise ValueError("sideloaded area with an empty part")
            record.add_subregion(sideloaded_sub)
        else:
            record.add_subregion(SubRegion(_location_from_parts(sub["p"]), sub["tool"], label=sub.get("label", "")))

    if spec.get("areas", 1):
        record.create_candidate_clusters()
        record.create_regions()

    # analysis annotations: like the pipeline, only genes inside a region are analysed
    # (PFAM hits of full_hmmer are genome-wide)
    def in_region(cds: Any) -> bool:
        for region in record.get_regions():
            outer = [(int(p.start), int(p.end)) for p in region.location.parts]
            if all(any(o_s <= int(p.start) and int(p.end) <= o_e for o_s, o_e in outer) for p in cds.location.parts):
                return True
        return False

    counter: dict = {}
    for gene in spec["genes"]:
        cds = record.get_cds_by_name(gene["n"])
        for code in gene.get("a", []):
            if code.rstrip("z") == "P" or in_region(cds):
                _decorate_gene(record, cds, code, counter)
                if code.rstrip("z") == "D" and cds.region:
                    # like modules.nrps_pks: predicted polymer and structure of the candidate clusters
                    for candidate in cds.region.candidate_clusters:
                        if cds in candidate.cds_children:
                            candidate.polymer = "(mal) + (ohmal - ccmal)"
                            candidate.smiles_structure = "CC(=O)CC(O)C(C)C(=O)O"
    # one module over two genes (trans-AT style) when X1 and X2 were both used
    multi = counter.get("x", [])
    if len(multi) >= 2 and multi[0].locus_tag != multi[1].locus_tag and multi[0].strand == multi[1].strand:
        from antismash.common.secmet.features import Module
        location = record.connect_locations([multi[0].location, multi[1].location])
        if len(location.parts) == 1 or circular:
            module = Module(location, multi[:2], module_type=Module.types.PKS, complete=True)
            module.add_monomer("mal", "ohmal")
            record.add_module(module)

    return record
