"""Canonical observation of a secmet Record and the two serialisation round trips (C10/C12).

`dump(record)` reads everything the property statement of C10 names from the real objects:
sequence, topology, and per feature its type, location, qualifiers (as the feature writes them),
typed annotations (gene functions, sec_met / NRPS-PKS domain annotations, translations, ...),
and for the areas their numbering and cross references, both by number and by the identity
(location + product/kind/tool) of the referenced area and by member gene names.

`dump` calls `to_biopython()`, which can modify the record it is called on (qualifier lists),
so it must only be applied to copies / re-read records.
"""
from __future__ import annotations

import io
from typing import Any


def loc_str(location: Any) -> str:
    """ Location text with a missing strand written as '+': GenBank text has no notation for an
        unstranded location, Biopython reads such a location back as forward. """
    parts = []
    for part in location.parts:
        strand = {1: "+", -1: "-", 0: "?", None: "+"}[part.strand]
        parts.append(f"[{part.start}:{part.end}]({strand})")
    if len(parts) == 1:
        return parts[0]
    return f"{location.operator}{{{', '.join(parts)}}}"


def _quals(bio_features: list) -> list:
    out = []
    for bio in bio_features:
        quals = []
        for key, val in sorted(bio.qualifiers.items()):
            if val is None:
                quals.append([key, None])
            elif isinstance(val, (list, tuple)):
                quals.append([key, [str(v) for v in val]])
            else:
                quals.append([key, str(val)])
        out.append([bio.type, loc_str(bio.location), quals])
    return out


def _names(cdses: Any) -> list[str]:
    return sorted(cds.get_name() for cds in cdses)


def _typed(feature: Any) -> dict:
    # pylint: disable=too-many-branches,too-many-statements
    from antismash.common.secmet import features as ft
    info: dict[str, Any] = {"class": type(feature).__name__, "by_as": bool(feature.created_by_antismash)}
    if isinstance(feature, ft.CDSFeature):
        info.update({
            "name": feature.get_name(), "locus_tag": feature.locus_tag, "protein_id": feature.protein_id,
            "gene": feature.gene, "product": feature.product, "transl_table": feature.transl_table,
            "translation": feature.translation,
            "codon_start": feature._original_codon_start,  # pylint: disable=protected-access
            "gene_functions": [[str(a.function), a.tool, a.product, a.description] for a in feature.gene_functions],
            "gene_function": str(feature.gene_function),
            "sec_met": [[d.name, d.evalue, d.bitscore, d.nseeds, d.tool] for d in feature.sec_met.domains],
            "nrps_pks_type": feature.nrps_pks.type,
            "nrps_pks": [[d.name, d.label, d.start, d.end, d.evalue, d.bitscore, d.feature_name,
                          list(d.subtypes)] for d in feature.nrps_pks.domains],
            "modules": sorted(loc_str(m.location) for m in feature.modules),
            "in_region": feature.region.get_region_number() if feature.region else None,
        })
    elif isinstance(feature, ft.Gene):
        info.update({"locus_tag": feature.locus_tag, "gene_name": feature.gene_name})
    elif isinstance(feature, ft.Module):
        info.update({
            "domains": [d.get_name() for d in feature.domains], "type": str(feature.module_type),
            "complete": feature.is_complete(), "starter": feature.is_starter_module(),
            "final": feature.is_final_module(), "iterative": feature.is_iterative(),
            "monomers": [list(pair) for pair in feature.monomers],
            "parents": sorted(feature.parent_cds_names),
        })
    elif isinstance(feature, ft.Domain):  # CDSMotif, Prepeptide, PFAMDomain, AntismashDomain + variants
        info.update({
            "domain_id": feature.domain_id, "locus_tag": feature.locus_tag,
            "protein_location": [int(feature.protein_location.start), int(feature.protein_location.end)],
            "tool": feature.tool, "domain": feature.domain, "label": feature.label,
            "score": feature.score, "evalue": feature.evalue, "database": feature.database,
            "detection": feature.detection,
            "translation": feature._translation,  # pylint: disable=protected-access
            "asf": list(feature.asf.hits) if hasattr(feature.asf, "hits") else feature.asf.to_biopython(),
        })
        if isinstance(feature, ft.PFAMDomain):
            go_terms = feature.gene_ontologies.go_entries if feature.gene_ontologies else {}
            info.update({"identifier": feature.identifier, "version": feature.version,
                         "description": feature.description, "go": sorted(go_terms.items())})
        if isinstance(feature, ft.Prepeptide):
            info.update({"leader": feature.leader, "core": feature.core, "tail": feature.tail,
                         "peptide_class": feature.peptide_class, "peptide_subclass": feature.peptide_subclass,
                         "pscore": feature.score, "mono": feature.monoisotopic_mass,
                         "weight": feature.molecular_weight, "alt": list(feature.alternative_weights)})
        for attr in ("subtypes", "specificity", "identifier", "description"):
            if attr not in info and hasattr(feature, attr):
                value = getattr(feature, attr)
                info[attr] = list(value) if isinstance(value, (list, tuple)) else value
    return info


def _feature_entry(feature: Any) -> list:
    bio = feature.to_biopython()
    if not isinstance(bio, list):
        bio = [bio]
    return [feature.type, loc_str(feature.location), _quals(bio), _typed(feature)]


def _proto_id(proto: Any) -> list:
    return [proto.product, loc_str(proto.location), loc_str(proto.core_location), type(proto).__name__]


def _cand_id(cand: Any) -> list:
    return [str(cand.kind), loc_str(cand.location), sorted(_proto_id(p) for p in cand.protoclusters)]


def _sub_id(sub: Any) -> list:
    return [sub.tool, sub.label, loc_str(sub.location), type(sub).__name__]


def dump(record: Any) -> dict:
    """ The canonical observation (JSON-able apart from float/None values) """
    # pylint: disable=too-many-locals
    from antismash.common.secmet.features.protocluster import SideloadedProtocluster
    from antismash.common.secmet.features.subregion import SideloadedSubRegion
    result: dict[str, Any] = {
        "sequence": str(record.seq),
        "topology": "circular" if record.is_circular() else "linear",
    }
    plain = []
    groups = [record.get_sources(), record.get_generics(), record.get_genes(), record.get_cds_features(),
              record.get_cds_motifs(), record.get_antismash_domains(), record.get_pfam_domains(),
              record.get_modules()]
    for group in groups:
        for feature in group:
            plain.append(_feature_entry(feature))
    # keyed by identity (type, location, class, name) so that differences are reported per feature
    keyed: dict[str, Any] = {}
    for entry in sorted(plain, key=lambda entry: (entry[0], entry[1], repr(entry[2]))):
        typed = entry[3]
        ident = typed.get("domain_id") or typed.get("name") or typed.get("locus_tag") or ""
        base = f"{entry[0]} {entry[1]} {typed['class']} {ident}".strip()
        key, count = base, 1
        while key in keyed:
            count += 1
            key = f"{base} #{count}"
        keyed[key] = entry[2:]
    result["features"] = keyed

    protos = []
    for proto in record.get_protoclusters():
        entry = {
            "number": proto.get_protocluster_number(), "id": _proto_id(proto),
            "category": proto.product_category, "tool": proto.tool, "cutoff": proto.cutoff,
            "neighbourhood": proto.neighbourhood_range, "rule": proto.detection_rule,
            "contig_edge": proto.contig_edge, "cds": _names(proto.cds_children),
            "definition_cds": _names(proto.definition_cdses),
            "t2pks": proto.t2pks.to_biopython_qualifiers() if proto.t2pks else None,
            "extra": dict(proto.extra_qualifiers) if isinstance(proto, SideloadedProtocluster) else None,
            "quals": _quals(proto.to_biopython()), "by_as": proto.created_by_antismash,
        }
        protos.append(entry)
    cands = []
    for cand in record.get_candidate_clusters():
        cands.append({
            "number": cand.get_candidate_cluster_number(), "id": _cand_id(cand),
            "core": loc_str(cand.core_location),
            "protocluster_numbers": [p.get_protocluster_number() for p in cand.protoclusters],
            "protoclusters": [_proto_id(p) for p in cand.protoclusters],
            "products": list(cand.products), "rules": list(cand.detection_rules),
            "smiles": cand.smiles_structure, "polymer": cand.polymer,
            "contig_edge": cand.contig_edge, "cds": _names(cand.cds_children),
            "quals": _quals(cand.to_biopython()),
        })
    subs = []
    for sub in record.get_subregions():
        subs.append({
            "number": sub.get_subregion_number(), "id": _sub_id(sub),
            "extra": dict(sub.extra_qualifiers) if isinstance(sub, SideloadedSubRegion) else None,
            "contig_edge": sub.contig_edge, "cds": _names(sub.cds_children),
            "quals": _quals(sub.to_biopython()),
        })
    regions = []
    for region in record.get_regions():
        regions.append({
            "number": region.get_region_number(), "location": loc_str(region.location),
            "candidate_numbers": [c.get_candidate_cluster_number() for c in region.candidate_clusters],
            "candidates": [_cand_id(c) for c in region.candidate_clusters],
            "subregion_numbers": [s.get_subregion_number() for s in region.subregions],
            "subregions": [_sub_id(s) for s in region.subregions],
            "products": list(region.products), "rules": list(region.detection_rules),
            "contig_edge": region.contig_edge, "cds": _names(region.cds_children),
            "quals": _quals(region.to_biopython()),
        })
    result["areas"] = {"protoclusters": protos, "candidates": cands, "subregions": subs, "regions": regions}
    return result


def diff(expected: Any, found: Any, path: str = "", out: list | None = None, limit: int = 6) -> list[str]:
    """ Human-readable differences between two dumps (first `limit`) """
    if out is None:
        out = []
    if len(out) >= limit:
        return out
    if isinstance(expected, dict) and isinstance(found, dict):
        for key in sorted(set(expected) | set(found)):
            if key not in expected:
                out.append(f"{path}/{key}: unexpected {found[key]!r}"[:300])
            elif key not in found:
                out.append(f"{path}/{key}: missing (was {expected[key]!r})"[:300])
            else:
                diff(expected[key], found[key], f"{path}/{key}", out, limit)
            if len(out) >= limit:
                break
    elif isinstance(expected, list) and isinstance(found, list):
        if len(expected) != len(found):
            out.append(f"{path}: {len(expected)} entries before, {len(found)} after; "
                       f"before={_short(expected)} after={_short(found)}"[:600])
        else:
            for i, (exp, fnd) in enumerate(zip(expected, found)):
                diff(exp, fnd, f"{path}[{i}]", out, limit)
                if len(out) >= limit:
                    break
    elif expected != found or type(expected) is not type(found):
        if not (isinstance(expected, (int, float)) and isinstance(found, (int, float)) and expected == found
                and not isinstance(expected, bool) and not isinstance(found, bool)):
            out.append(f"{path}: {expected!r} -> {found!r}"[:400])
    return out


def same(expected: Any, found: Any) -> bool:
    """ fast equality with the semantics of `diff` (bool is not a number, 1 == 1.0) """
    if type(expected) is not type(found):
        if isinstance(expected, bool) or isinstance(found, bool):
            return False
        if not (isinstance(expected, (int, float)) and isinstance(found, (int, float))):
            return False
        return expected == found
    if isinstance(expected, dict):
        return expected.keys() == found.keys() and all(same(val, found[key]) for key, val in expected.items())
    if isinstance(expected, (list, tuple)):
        return len(expected) == len(found) and all(same(a, b) for a, b in zip(expected, found))
    return expected == found


def _short(entries: list) -> str:
    return repr([e[:2] if isinstance(e, list) else e for e in entries])[:250]


# ---------------------------------------------------------------------------------------------
# serialisation round trips through the real writers and readers

TAXON = "bacteria"


def genbank_text(record: Any) -> str:
    """ Record.to_biopython() -> SeqIO.write (what Record.to_genbank / main.write_outputs do) """
    from Bio import SeqIO
    handle = io.StringIO()
    SeqIO.write([record.to_biopython()], handle, "genbank")
    return handle.getvalue()


def genbank_read(text: str, taxon: str = TAXON) -> Any:
    """ SeqIO.parse -> Record.from_biopython (what Record.from_genbank does) """
    from Bio import SeqIO
    from antismash.common.secmet import Record
    bios = list(SeqIO.parse(io.StringIO(text), "genbank"))
    assert len(bios) == 1, f"{len(bios)} records in file"
    return Record.from_biopython(bios[0], taxon)


def json_text(record: Any, taxon: str = TAXON) -> str:
    """ AntismashResults.write_to_file for a run with this single record and no module results """
    from antismash.common.serialiser import AntismashResults
    results = AntismashResults("input.gbk", [record], [{}], "verif-version", taxon=taxon)
    handle = io.StringIO()
    results.write_to_file(handle)
    return handle.getvalue()


def json_read(text: str) -> Any:
    """ AntismashResults.from_file """
    from antismash.common.serialiser import AntismashResults
    handle = io.StringIO(text)
    handle.name = "results.json"
    results = AntismashResults.from_file(handle)
    assert len(results.records) == 1
    return results.records[0]
