"""Bounded stand-in for C10: annotated records survive GenBank and JSON round trips unchanged.

For every record of the spec families in `_c10_specs` (built by `_c10_factory` with the real
constructors) the record is written like the pipeline does it (results JSON first, then GenBank,
from the same in-memory record), read back with the real readers, and compared with an
observation of an untouched deep copy of the record taken before any write:

  <fmt>-write / <fmt>-reload     writing / reading does not raise
  <fmt>-sequence, <fmt>-topology
  <fmt>-<feature type>           per feature type: same features with the same locations,
                                 qualifiers and typed annotations (CDS gene functions separately)
  <fmt>-protoclusters / -candidates / -subregions / -regions
                                 same areas, numbering and cross references
  <fmt>-fixed-point              writing the re-read record gives the identical text

with <fmt> in {json, gbk}.
"""
from __future__ import annotations

import copy
import traceback
from typing import Any

RULE = ("records of length 360 with six genes on a 60-base raster, built with the real constructors: "
        "families A1-A3 (all 1/2/3-subsets with repetition of rule options = contiguous anchor genes x "
        "neighbourhood 0/15/45, on linear/circular layouts incl. genes at 0, at the record end and over the "
        "origin), AS (x subregion layouts), AX (x sideloaded protoclusters), B (17 gene shapes x 15 "
        "decorations x anchored or not), M (no areas, generic features, fungal taxon, other seeds); thorough "
        "adds wider anchor ranges, all layouts for triples and seeded random mixtures. "
        "Non-trivial = record has >= 1 region and >= 3 feature classes; distinct = distinct spec.")
EXHAUSTIVE = {"quick": True, "thorough": False}
N_SHARDS = 48

FEATURE_ASPECTS = ["source", "gene", "CDS", "CDS_motif", "aSDomain", "PFAM_domain", "aSModule"]
AREA_ASPECTS = ["protoclusters", "candidates", "subregions", "regions"]


# ---------------------------------------------------------------------------------------------
# description of the input (used to classify known findings; computed from the built record)

def _parts(location: Any) -> tuple:
    return tuple((int(p.start), int(p.end)) for p in location.parts)


def input_tags(record: Any) -> list[str]:
    """ Features of the input record that known findings are conditioned on """
    from antismash.common.secmet.features import Prepeptide
    tags = set()
    for label, areas in (("proto", record.get_protoclusters()), ("cand", record.get_candidate_clusters()),
                         ("sub", record.get_subregions())):
        seen: dict[tuple, int] = {}
        for area in areas:
            seen[_parts(area.location)] = seen.get(_parts(area.location), 0) + 1
        if any(count > 1 for count in seen.values()):
            tags.add(f"{label}-tie")
    for cds in record.get_cds_features():
        for annotation in cds.gene_functions:
            if not annotation.product and ": " in annotation.description:
                tags.add("gf-colon")
        if cds.notes and cds._qualifiers.get("note"):  # pylint: disable=protected-access
            tags.add("note-dup")
    for motif in record.get_cds_motifs():
        if isinstance(motif, Prepeptide):
            if motif.location.strand == -1 and (motif.leader or motif.tail):
                tags.add("prepeptide-rev")
            if len(motif.location.parts) > 1:
                tags.add("prepeptide-exons")
    return sorted(tags)


# ---------------------------------------------------------------------------------------------

def aspects(dump: dict) -> dict[str, Any]:
    """ Splits an observation into the compared aspects """
    out: dict[str, Any] = {"sequence": dump["sequence"], "topology": dump["topology"]}
    for key, (quals, typed) in dump["features"].items():
        kind = key.split(" ", 1)[0]
        if kind == "CDS":
            functions = {"typed": typed["gene_functions"], "class": typed["gene_function"], "quals": []}
            rest_typed = {k: v for k, v in typed.items() if k not in ("gene_functions", "gene_function")}
            rest_quals = []
            for bio_type, location, pairs in quals:
                kept = []
                for name, values in pairs:
                    if name in ("gene_functions", "gene_kind"):
                        functions["quals"].append([name, values])
                    else:
                        kept.append([name, values])
                rest_quals.append([bio_type, location, kept])
            out.setdefault("CDS", {})[key] = [rest_quals, rest_typed]
            if functions["typed"] or functions["quals"]:
                out.setdefault("CDS-gene-functions", {})[key] = functions
            continue
        if kind not in FEATURE_ASPECTS:
            kind = "other-features"
        out.setdefault(kind, {})[key] = [quals, typed]
    for name in AREA_ASPECTS:
        if dump["areas"][name]:
            out[name] = dump["areas"][name]
    return out


def feature_classes(dump: dict) -> int:
    kinds = {key.split(" ", 1)[0] for key in dump["features"]}
    kinds.update(name for name in AREA_ASPECTS if dump["areas"][name])
    return len(kinds)


def evaluate(spec: dict) -> tuple[list[tuple[str, bool, str]], dict]:
    """ Runs one record through both round trips -> ([(clause, ok, detail)], info) """
    # pylint: disable=too-many-locals,too-many-branches,too-many-statements
    from bounded import _c10_factory as factory, _c10_observe as observe

    results: list[tuple[str, bool, str]] = []
    info: dict[str, Any] = {"built": False, "nontrivial": False, "tags": []}
    clean = {k: v for k, v in spec.items() if k != "tags"}
    try:
        record = factory.build(clean)
    except Exception as err:  # pylint: disable=broad-except
        info["build_error"] = f"{type(err).__name__}: {err}"
        return results, info
    info["built"] = True
    info["tags"] = input_tags(record)
    taxon = clean.get("taxon", "bacteria")
    try:
        before = observe.dump(copy.deepcopy(record))
    except Exception:  # pylint: disable=broad-except
        # the record cannot even be converted for writing
        results.append(("json-write", False, "to_biopython of the annotated record raised:\n"
                        + traceback.format_exc(limit=6)))
        return results, info
    info["nontrivial"] = bool(before["areas"]["regions"]) and feature_classes(before) >= 3
    expected = aspects(before)

    texts = {}
    for fmt, writer in (("json", lambda rec: observe.json_text(rec, taxon)), ("gbk", observe.genbank_text)):
        try:
            texts[fmt] = writer(record)
            results.append((f"{fmt}-write", True, ""))
        except Exception:  # pylint: disable=broad-except
            results.append((f"{fmt}-write", False, traceback.format_exc(limit=6)))

    for fmt in ("json", "gbk"):
        if fmt not in texts:
            continue
        reader = observe.json_read if fmt == "json" else (lambda text: observe.genbank_read(text, taxon))
        try:
            after = observe.dump(reader(texts[fmt]))
            rewritten = (observe.json_text(reader(texts[fmt]), taxon) if fmt == "json"
                         else observe.genbank_text(reader(texts[fmt])))
            results.append((f"{fmt}-reload", True, ""))
        except Exception:  # pylint: disable=broad-except
            results.append((f"{fmt}-reload", False, traceback.format_exc(limit=8)))
            continue
        found = aspects(after)
        for name in sorted(set(expected) | set(found)):
            differences = observe.diff(expected.get(name, {}), found.get(name, {}), path=name)
            results.append((f"{fmt}-{name}", not differences, "; ".join(differences)))
        same = rewritten == texts[fmt]
        detail = ""
        if not same:
            detail = _first_difference(texts[fmt], rewritten)
        results.append((f"{fmt}-fixed-point", same, detail))
    return results, info


def _first_difference(first: str, second: str) -> str:
    import difflib
    if first.startswith("{"):
        index = next((i for i, (a, b) in enumerate(zip(first, second)) if a != b), min(len(first), len(second)))
        return f"first difference at char {index}: {first[max(0, index - 150):index + 150]!r} vs " \
               f"{second[max(0, index - 150):index + 150]!r}"
    lines = list(difflib.unified_diff(first.splitlines(), second.splitlines(), lineterm="", n=0))
    return "\n".join(lines[:24])


# ---------------------------------------------------------------------------------------------
# driver interface

def shards(tier: str, seed: int) -> list:
    return [{"tier": tier, "index": i, "of": N_SHARDS, "seed": seed} for i in range(N_SHARDS)]


def _case(spec: dict, tags: list[str]) -> dict:
    case = dict(spec)
    case["tags"] = tags
    return case


def run_one(spec: dict, run: Any) -> None:
    results, info = evaluate(spec)
    if not info["built"]:
        return
    case = _case(spec, info["tags"])
    for clause, ok, detail in results:
        run.check(clause, ok, case, nontrivial=info["nontrivial"], detail=detail)


def run_shard(shard: dict, run: Any) -> None:
    from bounded import _c10_specs as specs
    tier = shard["tier"]
    for i, spec in enumerate(specs.all_specs(tier)):
        if i % shard["of"] != shard["index"]:
            continue
        if tier == "thorough" and run.out_of_time():
            return
        run_one(spec, run)
    if tier == "thorough":
        while not run.out_of_time():
            run_one(specs.random_spec(run.rng), run)


def replay(case: dict) -> list[str]:
    results, info = evaluate(case)
    if not info["built"]:
        return [f"factory could not build the record: {info.get('build_error')}"]
    return [f"{clause}: {detail}" for clause, ok, detail in results if not ok]


FINDING_CLASSES: dict[str, Any] = {}
