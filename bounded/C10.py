"""Bounded stand-in for C10: annotated records survive GenBank and JSON round trips unchanged.

For every record of the spec families in `_c10_specs` (built by `_c10_factory` with the real
constructors) the record is written like the pipeline does it (results JSON first, then GenBank,
from the same in-memory record), read back with the real readers, and compared with an
observation of an untouched deep copy of the record taken before any write:

  <fmt>-write / <fmt>-reload     writing / reading does not raise
  <fmt>-sequence, <fmt>-topology
  <fmt>-<feature type>           per feature type: same features with the same locations,
                                 qualifiers and typed annotations (CDS gene functions separately)
  <fmt>-protoclusters / -candidates / -subregions / -regions
                                 same areas, numbering and cross references
  <fmt>-area-members             same member genes of every area, same region of every gene
  <fmt>-fixed-point-content      writing the re-read record gives the same header, sequence and
                                 feature entries (compared as a multiset)
  <fmt>-fixed-point-order        ... and in the same order, i.e. the identical text

with <fmt> in {json, gbk}. The oracle is the observation itself (`_c10_observe.dump`): every value is
read from the real objects before and after; nothing is recomputed with antismash code.

Cases whose input has a feature under which a clause is known to fail on the pinned tree (see
`input_tags`, RELEVANT) are reported under the clause name '<clause>@<tag+tag>', all others under the
bare clause name; FINDING_CLASSES only ever match the '@' names.

A case is the spec itself plus "tags" (the input description, recomputed on replay); a stored witness
may carry "only": [clauses] to restrict what `replay` reports to the clauses it is a witness for.
"""
from __future__ import annotations

import copy
import traceback
from typing import Any

RULE = ("records of length 360 with six genes on a 60-base raster, built with the real constructors: "
        "families A1-A3 (all 1/2/3-subsets with repetition of rule options = contiguous anchor genes x "
        "neighbourhood 0/15/45, on linear/circular layouts incl. genes at 0, at the record end and over the "
        "origin), AS (x subregion layouts), AX (x sideloaded protoclusters), B (19 gene shapes incl. order(...) locations x 20 "
        "decorations (gene functions, notes, PFAM/TIGR/modular domains, motifs, modules, prepeptides) x anchored "
        "or not), M (no areas, generic features, fungal taxon, other seeds), T (hand-made layouts off the raster), "
        "P (prepeptides with/without leader and tail in a second region and in a region over the origin), O (origin-"
        "spanning multi-exon genes x origin-spanning regions cutting them at four places), N (locus tags of 47/52/68 "
        "characters x every decoration), K (length 720, twelve genes, 11-13 areas: multi-member candidates, regions and "
        "subregion pairs numbered 8+9 / 9+10 / 10+11); decorations include E-value/score/mass 0.0 variants; "
        "analysis annotations only on genes inside a region, as in the pipeline; thorough adds wider anchor "
        "ranges, all layouts for pairs/triples and seeded random records off the raster. "
        "Non-trivial = record has >= 1 region and >= 3 feature classes; distinct = distinct spec.")
EXHAUSTIVE = {"quick": True, "thorough": False}
N_SHARDS = 48

FEATURE_ASPECTS = ["source", "gene", "CDS", "CDS_motif", "aSDomain", "PFAM_domain", "aSModule"]
AREA_ASPECTS = ["protoclusters", "candidates", "subregions", "regions"]


# ---------------------------------------------------------------------------------------------
# description of the input (used to classify known findings; computed from the built record)

def _parts(location: Any) -> tuple:
    return tuple((int(p.start), int(p.end)) for p in location.parts)


def _contained(inner: Any, outer: Any) -> bool:
    """ every part of `inner` lies within one part of `outer` (plain coordinates) """
    return all(any(o_start <= i_start and i_end <= o_end for o_start, o_end in _parts(outer))
               for i_start, i_end in _parts(inner))


def _sort_start(location: Any, length: int) -> int:
    """ the coordinate features are ordered by: the lowest coordinate, or for a location that
        continues over the origin the (negative) distance of its pre-origin start from the origin """
    parts = _parts(location)
    if len(parts) > 1:
        forward = location.strand != -1
        ordered = parts if forward else parts[::-1]
        for i in range(1, len(ordered)):
            if ordered[i][0] < ordered[i - 1][0]:    # wraps between part i-1 and i
                return min(p[0] for p in ordered[:i]) - length
    return min(p[0] for p in parts)


def _areas(record: Any) -> list:
    return (list(record.get_protoclusters()) + list(record.get_candidate_clusters())
            + list(record.get_subregions()) + list(record.get_regions()))


def missing_links(record: Any) -> list[tuple[Any, Any]]:
    """ (area, cds) pairs where the gene lies inside the area but is not one of its members """
    out = []
    for area in _areas(record):
        members = set(area.cds_children)
        for cds in record.get_cds_features():
            if cds not in members and _contained(cds.location, area.location):
                out.append((area, cds))
    return out


def input_tags(record: Any) -> list[str]:
    """ Features of the input record that known findings are conditioned on: plain coordinates and
        attribute values of the record as built. Two tags ask a real function of other properties how
        this input behaves (connect_locations, get_cds_features_within_location); none of this is
        used by the oracle, only to name the clause and to classify known findings. """
    # pylint: disable=too-many-branches
    from antismash.common.secmet.features import Prepeptide
    from antismash.common.secmet.features.protocluster import SideloadedProtocluster
    tags = set()
    length = len(record)
    for label, areas in (("proto", record.get_protoclusters()), ("cand", record.get_candidate_clusters()),
                         ("sub", record.get_subregions())):
        seen: dict[tuple, int] = {}
        for area in areas:
            seen[_parts(area.location)] = seen.get(_parts(area.location), 0) + 1
        if any(count > 1 for count in seen.values()):
            tags.add(f"{label}-tie")
        # an area over the whole record next to one that continues over the origin: the first sorts before
        # the second because it contains it, the second before the first because of its (negative) start
        if any(_parts(a.location) == ((0, length),) for a in areas) and any(len(_parts(a.location)) > 1 for a in areas):
            tags.add("whole-vs-origin")
    if any(isinstance(proto, SideloadedProtocluster) for proto in record.get_protoclusters()):
        tags.add("side-proto")
    if not record.is_circular():
        # on a linear record: would the candidate's cores / extents be connected differently if a wrap
        # point were given? (what CandidateCluster.from_biopython does; connect_locations only describes
        # the input here)
        from antismash.common.secmet.locations import connect_locations
        for cand in record.get_candidate_clusters():
            for locations in ([p.core_location for p in cand.protoclusters], [p.location for p in cand.protoclusters]):
                try:
                    wrapped = connect_locations(list(locations), wrap_point=length)
                    wrapped = (_parts(wrapped), wrapped.strand)
                except Exception:  # pylint: disable=broad-except
                    wrapped = ()
                plain = connect_locations(list(locations))
                if wrapped != (_parts(plain), plain.strand):
                    tags.add("linear-core-wrap")
    if missing_links(record):
        tags.add("cds-link-miss")
    for area in _areas(record):
        # does the defect of property C08 show on this record? (the real query, used only to
        # describe the input: it is what add_*/from_biopython use to fill the member lists)
        wanted = {cds for cds in record.get_cds_features() if _contained(cds.location, area.location)}
        try:
            found = set(record.get_cds_features_within_location(area.location))
        except Exception:  # pylint: disable=broad-except
            found = set()
        if wanted != found:
            tags.add("cds-query-miss")
            break
    for cds in record.get_cds_features():
        for annotation in cds.gene_functions:
            if not annotation.product and ": " in annotation.description:
                tags.add("gf-colon")
        # free text of the CDS (notes, sec_met / gene function descriptions) with a word too long for one GenBank
        # qualifier line (59 columns): the writer splits the word, the parser joins the lines with a space.
        # (the aSDomain names in NRPS_PKS qualifiers are repaired on reading since /repo 1f083fb2)
        # (notes read from the input text are as the parser gave them, only added ones count)
        texts = list(cds.notes)
        texts += [str(domain) for domain in cds.sec_met.domains] + [str(a) for a in cds.gene_functions]
        if any(len(word) >= 59 for text in texts for word in str(text).split()):
            tags.add("long-word")
        if cds.notes and cds._qualifiers.get("note"):  # pylint: disable=protected-access
            tags.add("note-dup")
    for motif in record.get_cds_motifs():
        if isinstance(motif, Prepeptide):
            if motif.location.strand == -1 and (motif.leader or motif.tail):
                tags.add("prepeptide-rev")
            parts = _parts(motif.location)
            if len(parts) > 1 and _sort_start(motif.location, length) < 0:
                tags.add("prepeptide-origin")
            if len(motif.location) % 3 or "<" in str(motif.location) or ">" in str(motif.location):
                tags.add("prepeptide-partial")
            if len(motif.location.parts) > 1 and motif.location.operator != "join":
                tags.add("prepeptide-order")
    return sorted(tags)


# ---------------------------------------------------------------------------------------------

def aspects(dump: dict) -> dict[str, Any]:
    """ Splits an observation into the compared aspects """
    out: dict[str, Any] = {"sequence": dump["sequence"], "topology": dump["topology"]}
    for key, (quals, typed) in dump["features"].items():
        kind = key.split(" ", 1)[0]
        if kind == "CDS":
            functions = {"typed": typed["gene_functions"], "class": typed["gene_function"], "quals": []}
            rest_typed = {k: v for k, v in typed.items() if k not in ("gene_functions", "gene_function", "in_region")}
            if typed["in_region"] is not None:
                out.setdefault("area-members", {})[f"region of {key}"] = typed["in_region"]
            rest_quals = []
            for bio_type, location, pairs in quals:
                kept = []
                for name, values in pairs:
                    if name in ("gene_functions", "gene_kind"):
                        functions["quals"].append([name, values])
                    else:
                        kept.append([name, values])
                rest_quals.append([bio_type, location, kept])
            out.setdefault("CDS", {})[key] = [rest_quals, rest_typed]
            if functions["typed"] or functions["quals"]:
                out.setdefault("CDS-gene-functions", {})[key] = functions
            continue
        if kind not in FEATURE_ASPECTS:
            kind = "other-features"
        out.setdefault(kind, {})[key] = [quals, typed]
    for name in AREA_ASPECTS:
        entries = []
        for entry in dump["areas"][name]:
            entry = dict(entry)
            for member_key in ("cds", "definition_cds"):
                if member_key in entry:
                    members = entry.pop(member_key)
                    out.setdefault("area-members", {})[f"{name} {entry['number']} {member_key}"] = members
            entries.append(entry)
        if entries:
            out[name] = entries
    return out


def feature_classes(dump: dict) -> int:
    kinds = {key.split(" ", 1)[0] for key in dump["features"]}
    kinds.update(name for name in AREA_ASPECTS if dump["areas"][name])
    return len(kinds)


def evaluate(spec: dict) -> tuple[list[tuple[str, bool, str]], dict]:
    """ Runs one record through both round trips -> ([(clause, ok, detail)], info) """
    # pylint: disable=too-many-locals,too-many-branches,too-many-statements
    from bounded import _c10_factory as factory, _c10_observe as observe

    results: list[tuple[str, bool, str]] = []
    info: dict[str, Any] = {"built": False, "nontrivial": False, "tags": []}
    clean = {k: v for k, v in spec.items() if k not in ("tags", "only")}
    try:
        record = factory.build(clean)
    except Exception as err:  # pylint: disable=broad-except
        info["build_error"] = f"{type(err).__name__}: {err}"
        return results, info
    info["built"] = True
    if clean.get("relink"):
        # the state a record has when its genes were added after its areas (as on every re-read):
        # Record._link_cds_to_parent adds each gene to all areas containing it
        for area, cds in missing_links(record):
            area.add_cds(cds)
    info["tags"] = input_tags(record)
    taxon = clean.get("taxon", "bacteria")
    try:
        before = observe.dump(copy.deepcopy(record))
    except Exception:  # pylint: disable=broad-except
        # the record cannot even be converted for writing
        results.append(("json-write", False, "to_biopython of the annotated record raised:\n"
                        + traceback.format_exc(limit=6)))
        return results, info
    info["nontrivial"] = bool(before["areas"]["regions"]) and feature_classes(before) >= 3
    expected = aspects(before)

    texts = {}
    for fmt, writer in (("json", lambda rec: observe.json_text(rec, taxon)), ("gbk", observe.genbank_text)):
        try:
            texts[fmt] = writer(record)
            results.append((f"{fmt}-write", True, ""))
        except Exception:  # pylint: disable=broad-except
            results.append((f"{fmt}-write", False, traceback.format_exc(limit=6)))

    for fmt in ("json", "gbk"):
        if fmt not in texts:
            continue
        reader = observe.json_read if fmt == "json" else (lambda text: observe.genbank_read(text, taxon))
        try:
            reread = reader(texts[fmt])
            # write first: the re-read record is written exactly once before it is observed
            rewritten = observe.json_text(reread, taxon) if fmt == "json" else observe.genbank_text(reread)
            after = observe.dump(reread)
            results.append((f"{fmt}-reload", True, ""))
        except Exception:  # pylint: disable=broad-except
            results.append((f"{fmt}-reload", False, traceback.format_exc(limit=8)))
            continue
        found = aspects(after)
        for name in sorted(set(expected) | set(found)):
            differences = []
            if not observe.same(expected.get(name, {}), found.get(name, {})):
                differences = observe.diff(expected.get(name, {}), found.get(name, {}), path=name)
                assert differences, name
            results.append((f"{fmt}-{name}", not differences, "; ".join(differences)))
        first_rest, first_blocks = split_output(texts[fmt], fmt)
        second_rest, second_blocks = split_output(rewritten, fmt)
        same_content = first_rest == second_rest and sorted(first_blocks) == sorted(second_blocks)
        detail = ""
        if not same_content:
            detail = _first_difference(texts[fmt], rewritten)
        results.append((f"{fmt}-fixed-point-content", same_content, detail))
        if same_content:
            same = rewritten == texts[fmt]
            results.append((f"{fmt}-fixed-point-order", same,
                            "" if same else "same feature entries in another order:\n"
                            + _first_difference(texts[fmt], rewritten)))
    return results, info


def split_output(text: str, fmt: str) -> tuple[str, list[str]]:
    """ -> (everything but the feature entries, the feature entries as written) """
    if fmt == "json":
        import json
        data = json.loads(text)
        blocks = []
        for record in data["records"]:
            blocks.extend(json.dumps(feature) for feature in record["features"])
            record["features"] = len(record["features"])
        return json.dumps(data), blocks
    rest: list[str] = []
    blocks: list[str] = []
    in_table = False
    for line in text.splitlines():
        if line.startswith("FEATURES"):
            in_table = True
            rest.append(line)
        elif in_table and line.startswith("     ") and not line.startswith("      "):
            blocks.append(line)
        elif in_table and line.startswith("      "):
            blocks[-1] += "\n" + line
        else:
            in_table = False
            rest.append(line)
    return "\n".join(rest), blocks


def _first_difference(first: str, second: str) -> str:
    import difflib
    if first.startswith("{"):
        index = next((i for i, (a, b) in enumerate(zip(first, second)) if a != b), min(len(first), len(second)))
        return f"first difference at char {index}: {first[max(0, index - 150):index + 150]!r} vs " \
               f"{second[max(0, index - 150):index + 150]!r}"
    lines = list(difflib.unified_diff(first.splitlines(), second.splitlines(), lineterm="", n=0))
    return "\n".join(lines[:24])


# ---------------------------------------------------------------------------------------------
# driver interface

def shards(tier: str, seed: int) -> list:
    return [{"tier": tier, "index": i, "of": N_SHARDS, "seed": seed} for i in range(N_SHARDS)]


def _case(spec: dict, tags: list[str]) -> dict:
    case = dict(spec)
    case["tags"] = tags
    return case


# input features under which an aspect is known to fail on the pinned tree: such cases are counted under
# their own clause name '<clause>@<tags>' so that they neither hide nor crowd out the others
# (note-dup, linear-core-wrap, prepeptide-rev, side-proto and whole-vs-origin are still computed as a description
# of the case but no longer name a clause: C10-F4, F11, F5, F9, F10 are fixed in /repo (ea1edb60, 64dd6737,
# ecdb2578, f9c821bb, ab256cba); their cases are judged under the bare clause names again and their
# predicates below cannot match any clause name)
RELEVANT = {
    "protoclusters": ["proto-tie"],
    "candidates": ["proto-tie", "cand-tie"],
    "subregions": ["sub-tie"],
    "regions": ["proto-tie", "cand-tie", "sub-tie"],
    "area-members": ["proto-tie", "cand-tie", "sub-tie", "cds-link-miss", "cds-query-miss"],
    "fixed-point-content": ["proto-tie", "cand-tie", "sub-tie"],
    "fixed-point-order": ["prepeptide-origin", "prepeptide-partial"],
    "CDS-gene-functions": ["gf-colon"],
    "CDS": ["long-word"],
    "CDS_motif": ["prepeptide-origin", "prepeptide-partial", "prepeptide-order"],
}


def qualified(clause: str, tags: list[str]) -> str:
    aspect = clause.split("-", 1)[1]
    present = [tag for tag in RELEVANT.get(aspect, []) if tag in tags]
    if clause == "json-CDS":
        present = []        # words are only split and re-joined in GenBank text
    return f"{clause}@{'+'.join(present)}" if present else clause


def run_one(spec: dict, run: Any) -> None:
    results, info = evaluate(spec)
    if not info["built"]:
        return
    case = _case(spec, info["tags"])
    for clause, ok, detail in results:
        run.check(qualified(clause, info["tags"]), ok, case, nontrivial=info["nontrivial"], detail=detail)
    if "cds-link-miss" in info["tags"] and not spec.get("relink"):
        # Record.get_cds_features_within_location missed member genes when the areas were added
        # (property C08); also check the same record with the links a re-read record would have
        relinked = dict(spec)
        relinked["relink"] = 1
        run_one(relinked, run)


def run_shard(shard: dict, run: Any) -> None:
    import logging
    from bounded import _c10_specs as specs
    logging.disable(logging.CRITICAL)   # antismash logs refused inputs; nothing may be printed here
    tier = shard["tier"]
    for i, spec in enumerate(specs.all_specs(tier)):
        if i % shard["of"] != shard["index"]:
            continue
        if tier == "thorough" and run.out_of_time():
            return
        run_one(spec, run)
    if tier == "thorough":
        # seeded random records until the budget is used (a fixed number when there is no deadline)
        done = 0
        while not run.out_of_time() and (run.deadline or done < 150):
            run_one(specs.random_spec(run.rng), run)
            done += 1


def replay(case: dict) -> list[str]:
    import logging
    logging.disable(logging.CRITICAL)
    results, info = evaluate(case)
    if not info["built"]:
        return [f"factory could not build the record: {info.get('build_error')}"]
    # a stored witness may name the clauses it is a witness for ("only": ["gbk-CDS", ...]); other
    # clauses (possibly failing for another known reason on the same record) are then not reported
    only = case.get("only")
    return [f"{qualified(clause, info['tags'])}: {detail}" for clause, ok, detail in results
            if not ok and (not only or clause in only)]


def _known(clause: str, case: Any, aspects_: tuple, tags: tuple) -> bool:
    """ clause is '<fmt>-<aspect>@<tags>' for one of the aspects, and one of `tags` is among the
        clause's tags and the case's tags """
    if "@" not in clause or not isinstance(case, dict):
        return False
    base, _, suffix = clause.partition("@")
    if base.split("-", 1)[1] not in aspects_:
        return False
    return any(tag in suffix.split("+") and tag in case.get("tags", []) for tag in tags)


AREAS = ("protoclusters", "candidates", "subregions", "regions", "area-members", "fixed-point-content")

FINDING_CLASSES: dict[str, Any] = {
    # areas with identical coordinates tie in CDSCollection.__lt__: bisect_left reverses them on reload
    "C10-F1": lambda clause, case: _known(clause, case, AREAS, ("proto-tie", "cand-tie")),
    "C10-F2": lambda clause, case: _known(clause, case, AREAS, ("sub-tie",)),
    # gene function text '<function> (<tool>) <id>: <description>' is parsed as product '<id>'
    "C10-F3": lambda clause, case: _known(clause, case, ("CDS-gene-functions",), ("gf-colon",)),
    # Feature.to_biopython extends the stored note list: every further conversion repeats feature.notes
    # (repaired in /repo, ea1edb60: the tag no longer names a clause, the predicate cannot match)
    "C10-F4": lambda clause, case: clause.startswith("gbk-") and _known(clause, case, ("CDS",), ("note-dup",)),
    # prepeptide location is rebuilt from leader+core+tail: not merged on the reverse strand (F5), wrong
    # part order over the origin (F6, the C09 defect), partial codons / fuzzy ends lost (F7)
    "C10-F5": lambda clause, case: _known(clause, case, ("CDS_motif", "fixed-point-order"), ("prepeptide-rev",)),
    "C10-F6": lambda clause, case: _known(clause, case, ("CDS_motif", "fixed-point-order"), ("prepeptide-origin",)),
    "C10-F7": lambda clause, case: _known(clause, case, ("CDS_motif", "fixed-point-order"),
                                          ("prepeptide-partial", "prepeptide-order")),
    # a word of a free-text CDS qualifier (a note) that does not fit a GenBank line is split by the writer and
    # comes back with a space inside; identifiers (locus_tag, domain_id, label, aSDomain references) are repaired
    "C10-F12": lambda clause, case: clause.startswith("gbk-") and _known(clause, case, ("CDS",), ("long-word",)),
    # member genes missed by Record.get_cds_features_within_location (C08) at creation or on reload
    "C10-F8": lambda clause, case: _known(clause, case, ("area-members",), ("cds-link-miss", "cds-query-miss")),
    # SideloadedProtocluster.from_biopython leaves category/core_location/... in the generic qualifiers
    "C10-F9": lambda clause, case: _known(clause, case, ("protoclusters", "fixed-point-content"), ("side-proto",)),
    # CDSCollection.__lt__ orders a whole-record area and an origin-spanning area both ways round
    "C10-F10": lambda clause, case: _known(clause, case, AREAS, ("whole-vs-origin",)),
    # CandidateCluster.from_biopython connects locations with wrap_point=len(record) on linear records too
    # (repaired in /repo, 64dd6737: the tag no longer names a clause, the predicate cannot match)
    "C10-F11": lambda clause, case: _known(clause, case, ("candidates", "fixed-point-content"), ("linear-core-wrap",)),
}
