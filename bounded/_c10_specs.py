"""Spec families for the bounded stand-ins C10 and C12 (see _c10_factory for the spec format).

All records have length 360 and six 30-base genes on a 60-base raster, so that protocluster
neighbourhoods of 0/15/45 bases produce the boundary coincidences on purpose: areas that touch
(end == start), areas clipped at 0 and at the record length, identical coordinates, neighbourhoods
that wrap over the origin of circular records, cores equal to neighbourhoods.

Families (every family is a finite list, enumerated completely; `thorough` adds larger lists and
seeded samples of the triple/decoration products):
  A1/A2/A3  one / two / three rule-based protoclusters over contiguous anchor genes
  AS        one protocluster + subregions (equal to it, overlapping, disjoint, twins, sideloaded)
  AX        sideloaded protoclusters alone and next to rule-based ones
  B         one focus gene of every shape (strand, exons, codon_start, fuzzy end, origin-spanning)
            x every decoration (gene functions, notes, PFAM, TIGR, modular domains + motif + module,
            two-gene module, prepeptides with leader/tail)
  M         records without areas, extra generic features, fungal taxon
  T         a few hand-made layouts off the raster, minimised from findings of the random search
  P         prepeptides with leader / tail present or absent (4 combinations) on every gene of a region that
            does not start at base 0 (second region of a linear record; region over the origin)
  K         twelve genes, 11-13 areas: a multi-member candidate / region / subregion pair numbered 8+9, 9+10, 10+11
  N         a gene with a locus tag of 47 / 52 / 68 characters (wrapped in GenBank qualifiers) x every decoration
  O         origin-spanning multi-exon genes (both strands) x an origin-spanning region cutting them in the
            inner exon / in the intron / in the outer exon / not at all
"""
from __future__ import annotations

import itertools
from typing import Any, Iterator

L = 360
STRANDS = [1, 1, -1, 1, 1, -1]
PRODUCTS = [("T1PKS", "PKS"), ("NRPS", "NRPS"), ("lanthipeptide-class-ii", "RiPP")]
NBS = [(0, 15), (15, 20), (45, 10)]   # (neighbourhood, cutoff)


def layout(name: str) -> tuple[int, list[dict]]:
    """ -> (circular, genes) """
    genes = []
    if name in ("LI", "CI"):
        for k in range(6):
            genes.append({"n": f"g{k}", "p": [[15 + 60 * k, 45 + 60 * k]], "s": STRANDS[k]})
    elif name == "LE":
        for k in range(6):
            start = 60 * k if k < 5 else 330
            genes.append({"n": f"g{k}", "p": [[start, start + 30]], "s": STRANDS[k]})
    elif name == "CO":
        genes.append({"n": "g0", "p": [[345, 360], [0, 15]], "s": 1})
        for k in range(1, 6):
            genes.append({"n": f"g{k}", "p": [[60 * k - 15, 60 * k + 15]], "s": STRANDS[k]})
    elif name == "CR":     # origin-spanning gene on the reverse strand
        genes.append({"n": "g0", "p": [[0, 15], [345, 360]], "s": -1})
        for k in range(1, 6):
            genes.append({"n": f"g{k}", "p": [[60 * k - 15, 60 * k + 15]], "s": STRANDS[k]})
    else:
        raise ValueError(name)
    return (1 if name[0] == "C" else 0), genes


def light_decor(genes: list[dict], level: int) -> None:
    """ a fixed light decoration so that area records carry several feature classes """
    if level <= 0:
        return
    genes[1].setdefault("a", []).append("P")
    genes[3].setdefault("a", []).append("R2" if level > 1 else "R1")
    genes[4].setdefault("a", []).append("D")
    genes[1]["g"] = 1
    if level > 1:
        genes[2].setdefault("a", []).append("R1")
        genes[0].setdefault("a", []).append("T")


def anchor_ranges(circular: int, width: int = 1, upto: int = 5, wrap: bool = True) -> list[list[str]]:
    out = []
    for i in range(upto + 1):
        for span in range(width + 1):
            j = i + span
            if j <= upto:
                out.append([f"g{k}" for k in range(i, j + 1)])
    if circular and wrap:
        out.append(["g5", "g0"])
    return out


def rule_options(circular: int, width: int = 1, upto: int = 5, nbs: list | None = None,
                 wrap: bool = True) -> list[dict]:
    out = []
    for anchors in anchor_ranges(circular, width, upto, wrap):
        for nb, cut in (nbs or NBS):
            out.append({"anchors": anchors, "nb": nb, "cut": cut})
    return out


def with_products(options: tuple | list, side: tuple = ()) -> list[dict]:
    rules = []
    for i, option in enumerate(options):
        rule = dict(option)
        rule["prod"], rule["cat"] = PRODUCTS[i % len(PRODUCTS)]
        if i in side:
            rule["side"] = 1
            rule["prod"] = f"side{i}"
        rules.append(rule)
    return rules


def make(name: str, rules: list[dict], subs: list[dict] | None = None, decor: int = 1, seed: int = 0,
         misc: list | None = None, **extra: Any) -> dict:
    circular, genes = layout(name)
    light_decor(genes, decor)
    spec = {"fam": extra.pop("fam", "?"), "lay": name, "L": L, "circ": circular, "seed": seed,
            "genes": genes, "rules": rules, "subs": subs or [], "misc": misc or []}
    spec.update(extra)
    return spec


LAYOUTS = ["LI", "LE", "CI", "CO"]
EDGE_LAYOUTS = ["LE", "CO"]
WIDE = [(0, 15), (45, 10)]


def family_a1(tier: str) -> Iterator[dict]:
    for name in LAYOUTS + ["CR"]:
        circular, _ = layout(name)
        for option in rule_options(circular, width=2 if tier == "thorough" else 1):
            yield make(name, with_products([option]), fam="A1", decor=2)


def family_a2(tier: str) -> Iterator[dict]:
    for name in (LAYOUTS if tier == "thorough" else EDGE_LAYOUTS):
        circular, _ = layout(name)
        if tier == "thorough":
            options = rule_options(circular, width=2)
        else:
            options = rule_options(circular, width=1, upto=2)
        for first, second in itertools.combinations_with_replacement(options, 2):
            yield make(name, with_products([first, second]), fam="A2")


def family_a3(tier: str) -> Iterator[dict]:
    for name in (LAYOUTS if tier == "thorough" else EDGE_LAYOUTS):
        circular, _ = layout(name)
        if tier == "thorough":
            options = rule_options(circular, width=1, upto=4)
        else:
            options = [o for o in rule_options(circular, width=1, upto=2, nbs=WIDE, wrap=False)
                       if o["anchors"] != ["g2"]]
        for combo in itertools.combinations_with_replacement(options, 3):
            yield make(name, with_products(combo), fam="A3")


def sub_options(circular: int) -> list[list[dict]]:
    cassis = {"tool": "cassis", "label": "g2"}
    out = [
        [dict(cassis, p=[[105, 195]])],                       # around g2 (LI) / overlapping g2,g3
        [dict(cassis, p=[[120, 150]])],                       # exactly a gene on LE
        [dict(cassis, p=[[0, 60]])],                          # touches the start
        [dict(cassis, p=[[300, 360]])],                       # touches the end
        [dict(cassis, p=[[105, 195]]), {"tool": "other", "label": "", "p": [[105, 195]]}],   # twins
        [dict(cassis, p=[[105, 195]]), {"tool": "verif-tool", "label": "ext", "p": [[135, 225]], "side": 1}],
        [{"tool": "verif-tool", "label": "ext label", "p": [[200, 260]], "side": 1}],   # cuts a gene
        [dict(cassis, p=[[0, 360]])],                         # whole record
        [dict(cassis, p=[[0, 60]]), dict(cassis, p=[[120, 210]], label="g3"),
         {"tool": "verif-tool", "label": "third", "p": [[300, 360]], "side": 1}],      # three regions
    ]
    if circular:
        out.append([dict(cassis, p=[[330, 360], [0, 45]])])   # over the origin
        out.append([{"tool": "verif-tool", "label": "x", "p": [[300, 360], [0, 20]], "side": 1}])
        out.append([dict(cassis, p=[[350, 360], [0, 100]])])  # cuts an origin-spanning gene
        out.append([dict(cassis, p=[[300, 360], [0, 10]])])   # cuts an origin-spanning gene
        out.append([dict(cassis, p=[[300, 360], [0, 230]])])  # most of the record, prepeptide after the origin
    return out


def family_as(tier: str) -> Iterator[dict]:
    for name in LAYOUTS:
        circular, _ = layout(name)
        if tier == "thorough":
            options = rule_options(circular, width=1)
        else:
            options = [o for o in rule_options(circular, width=0, nbs=[(15, 20)], wrap=False)
                       if o["anchors"][0] in ("g0", "g2", "g5")]
        for subs in sub_options(circular):
            yield make(name, [], subs=subs, fam="AS")
            for option in options:
                yield make(name, with_products([option]), subs=subs, fam="AS")
    # subregion with exactly the coordinates of the protocluster / candidate cluster
    for name in LAYOUTS:
        circular, _ = layout(name)
        for option in (rule_options(circular, width=1) if tier == "thorough"
                       else rule_options(circular, width=0, nbs=WIDE, wrap=False)):
            yield make(name, with_products([option]), fam="AS", sub_like_rule=1)


def family_ax(tier: str) -> Iterator[dict]:
    for name in (LAYOUTS if tier == "thorough" else EDGE_LAYOUTS):
        circular, _ = layout(name)
        if tier == "thorough":
            singles = options = rule_options(circular, width=1)
        else:
            singles = rule_options(circular, width=1, upto=3)
            options = rule_options(circular, width=1, upto=2, nbs=WIDE)
        for option in singles:
            yield make(name, with_products([option], side=(0,)), fam="AX")
        for first, second in itertools.product(options, repeat=2):
            yield make(name, with_products([first, second], side=(1,)), fam="AX")
        if tier == "thorough":
            for first, second in itertools.combinations_with_replacement(options, 2):
                yield make(name, with_products([first, second], side=(0, 1)), fam="AX")


# --- family B: gene shapes x decorations -------------------------------------------------------

def focus_shapes() -> list[tuple[str, int, dict]]:
    """ (label, circular, focus gene) - the focus gene replaces g2 of an LI/CI-like layout """
    return [
        ("fwd", 0, {"p": [[135, 165]], "s": 1}),
        ("rev", 0, {"p": [[135, 165]], "s": -1}),
        ("fwd2", 0, {"p": [[126, 144], [153, 165]], "s": 1}),
        ("rev2", 0, {"p": [[153, 165], [126, 144]], "s": -1}),
        ("fwd3", 0, {"p": [[120, 132], [138, 150], [156, 168]], "s": 1}),
        ("rev3", 0, {"p": [[156, 168], [138, 150], [120, 132]], "s": -1}),
        ("cs2-start", 0, {"p": [[0, 32]], "s": 1, "cs": 2, "fz": 1}),
        ("cs3-start", 0, {"p": [[0, 32]], "s": 1, "cs": 3, "fz": 1}),
        ("cs2-end", 0, {"p": [[329, 360]], "s": -1, "cs": 2, "fz": 1}),
        ("cs3-exact", 0, {"p": [[134, 166]], "s": 1, "cs": 3}),
        ("cs2-rev-exact", 0, {"p": [[135, 166]], "s": -1, "cs": 2}),
        ("cs2-exons", 0, {"p": [[125, 144], [153, 165]], "s": 1, "cs": 2}),
        ("org-fwd", 1, {"p": [[345, 360], [0, 15]], "s": 1}),
        ("org-rev", 1, {"p": [[0, 15], [345, 360]], "s": -1}),
        ("org-fwd3", 1, {"p": [[336, 348], [354, 360], [0, 6], [12, 24]], "s": 1}),
        ("org-rev3", 1, {"p": [[12, 24], [0, 6], [354, 360], [336, 348]], "s": -1}),
        # three exons over the origin, the two before it touching (pieces merged in a chain when shifted; seed C12-11)
        ("org-fwd-touch", 1, {"p": [[330, 345], [345, 360], [0, 15]], "s": 1}),
        ("org-rev-touch", 1, {"p": [[0, 15], [345, 360], [330, 345]], "s": -1}),
        ("circ-fwd", 1, {"p": [[135, 165]], "s": 1}),
        ("order-fwd", 0, {"p": [[126, 144], [153, 165]], "s": 1, "op": "order"}),     # order(...) instead of join(...)
        ("order-rev", 0, {"p": [[153, 165], [126, 144]], "s": -1, "op": "order"}),
    ]


DECORATIONS: list[tuple[str, dict]] = [
    ("none", {}),
    ("gene", {"g": 1}),
    ("note", {"note": 1}),
    ("F", {"a": ["F"]}),
    ("f", {"a": ["f"]}),
    ("N", {"a": ["N"]}),
    ("note+N", {"note": 1, "a": ["N"]}),
    ("P", {"a": ["P"]}),
    ("T", {"a": ["T"]}),
    ("D", {"a": ["D"]}),
    ("X", {"a": ["X1"], "next": ["X2"]}),
    ("R0", {"a": ["R0"]}),
    ("R1", {"a": ["R1"]}),
    ("R2", {"a": ["R2"]}),
    ("R3", {"a": ["R3"]}),
    ("Pz", {"a": ["Pz"]}),       # the same annotations with E-value 0.0 / score 0.0 / masses 0.0
    ("Tz", {"a": ["Tz"]}),
    ("Dz", {"a": ["Dz"]}),
    ("R2z", {"a": ["R2z"]}),
    ("all", {"g": 1, "note": 1, "a": ["f", "P", "T", "D", "R2"]}),
]


def family_b(tier: str) -> Iterator[dict]:
    for label, circular, focus in focus_shapes():
        for deco_label, deco in DECORATIONS:
            for anchored in (1, 0):
                if not anchored and tier != "thorough" and deco_label not in ("none", "F", "D", "R2", "all"):
                    continue
                genes = []
                occupied = {pos for start, end in focus["p"] for pos in range(start, end)}
                for k in range(6):
                    start = 15 + 60 * k
                    if k == 2 or occupied.intersection(range(start - 3, start + 33)):
                        continue
                    genes.append({"n": f"g{k}", "p": [[start, start + 30]], "s": STRANDS[k]})
                gene = dict(focus)
                gene["n"] = "fx"
                gene["g"] = deco.get("g", 0)
                gene["note"] = deco.get("note", 0)
                gene["a"] = list(deco.get("a", []))
                genes.append(gene)
                genes.sort(key=lambda g: min(p[0] for p in g["p"]))
                if deco.get("next"):
                    # the partner of a two-gene module: nearest other gene on the same strand
                    partners = [g for g in genes if g["n"] != "fx" and g["s"] == gene["s"]]
                    if not partners:
                        continue
                    partners[0].setdefault("a", []).extend(deco["next"])
                rules = []
                if anchored:
                    rules = with_products([{"anchors": ["fx"], "nb": 45, "cut": 20}])
                    if deco_label in ("R0", "R1", "R2", "R3", "R2z", "all"):
                        rules[0]["prod"], rules[0]["cat"] = PRODUCTS[2]
                else:
                    other = [g["n"] for g in genes if g["n"] != "fx"][:1]
                    rules = with_products([{"anchors": other, "nb": 45, "cut": 20}])
                yield {"fam": "B", "lay": f"{label}/{deco_label}", "L": L, "circ": circular, "seed": 1,
                       "genes": genes, "rules": rules, "subs": [], "misc": []}


def family_m(tier: str) -> Iterator[dict]:
    for name in LAYOUTS:
        circular, _ = layout(name)
        option = {"anchors": ["g1", "g2"], "nb": 45, "cut": 10}
        yield make(name, [], fam="M", decor=2, areas=0)
        yield make(name, with_products([option]), fam="M", decor=2, areas=0)
        for misc in (["tta"], ["tfbs"], ["inmisc"], ["extmotif"], ["ordfwd"], ["ordrev"],
                     ["tta", "tfbs", "inmisc", "extmotif", "ordfwd", "ordrev"]):
            yield make(name, with_products([option]), fam="M", decor=1, misc=misc)
        yield make(name, with_products([dict(option, t2=1)]), fam="M", decor=1)
        if not circular:
            yield make(name, with_products([option]), fam="M", decor=1, taxon="fungi")
        for seed in (1, 2, 3):
            yield make(name, with_products([option]), fam="M", decor=2, seed=seed)


def _gene(name: str, parts: list, strand: int = 1, **extra: Any) -> dict:
    gene = {"n": name, "p": parts, "s": strand}
    gene.update(extra)
    return gene


def family_t(tier: str) -> Iterator[dict]:
    """ hand-made layouts off the raster (minimised from the seeded random search of the thorough tier) """
    def rule(anchors: list, nb: int, cut: int, index: int) -> dict:
        product, category = PRODUCTS[index % 3] if index < 3 else (f"other{index}", "PKS")
        return {"anchors": anchors, "nb": nb, "cut": cut, "prod": product, "cat": category}
    # a protocluster / candidate over the whole circular record next to origin-spanning ones
    yield {"fam": "T", "lay": "whole-vs-origin", "L": 240, "circ": 1, "seed": 1,
           "genes": [_gene("g0", [[234, 240], [0, 18]]), _gene("g1", [[44, 56], [62, 83]]), _gene("g2", [[86, 137]]),
                     _gene("g3", [[153, 173], [137, 146]], -1, g=1)],
           "rules": [rule(["g0", "g1"], 40, 5, 0), rule(["g1", "g2"], 90, 5, 1)], "subs": [], "misc": []}
    # an origin-spanning single candidate with the coordinates of the neighbouring candidate
    yield {"fam": "T", "lay": "cand-tie", "L": 240, "circ": 1, "seed": 1,
           "genes": [_gene("g0", [[0, 54]], g=1), _gene("g1", [[79, 106]], -1), _gene("g2", [[106, 154]]),
                     _gene("g3", [[154, 172]]), _gene("g4", [[172, 205]])],
           "rules": [rule(["g2"], 90, 20, 0), rule(["g3", "g4"], 5, 50, 1), rule(["g4"], 5, 5, 2)],
           "subs": [], "misc": []}
    # linear record whose candidate cores would be connected "over the origin" if it were circular
    yield {"fam": "T", "lay": "linear-core-wrap", "L": 360, "circ": 0, "seed": 1,
           "genes": [_gene("g0", [[0, 59]], cs=1, fz=1), _gene("g1", [[62, 92]], -1),
                     _gene("g2", [[140, 156], [117, 132]], -1), _gene("g3", [[156, 216]]), _gene("g4", [[219, 243]]),
                     _gene("g5", [[246, 270]], -1), _gene("g6", [[280, 304]], -1), _gene("g7", [[304, 355]])],
           "rules": [rule(["g2", "g3", "g4"], 90, 50, 0), rule(["g0"], 5, 50, 1), rule(["g4"], 90, 5, 2),
                     rule(["g6"], 40, 50, 3)], "subs": [], "misc": []}
    yield {"fam": "T", "lay": "linear-core-wrap", "L": 360, "circ": 0, "seed": 1,
           "genes": [_gene("g0", [[0, 60]]), _gene("g1", [[117, 177]]), _gene("g2", [[270, 306]], -1)],
           "rules": [rule(["g0"], 90, 50, 0), rule(["g1", "g2"], 45, 50, 1)], "subs": [], "misc": []}
    # areas chained around the whole circle: one region that covers every base and starts inside the record
    yield make("CI", with_products([{"anchors": ["g1"], "nb": 45, "cut": 10}, {"anchors": ["g3", "g4"], "nb": 45, "cut": 10},
                                    {"anchors": ["g5", "g0"], "nb": 45, "cut": 10}]), fam="T")
    # origin-spanning region whose areas sort differently once it is linearised
    yield make("CI", with_products([{"anchors": ["g0"], "nb": 15, "cut": 20}, {"anchors": ["g3", "g4"], "nb": 0, "cut": 15},
                                    {"anchors": ["g5", "g0"], "nb": 45, "cut": 10}]), fam="T")
    # a region that is exactly one two-exon gene
    yield {"fam": "T", "lay": "exons-span-region", "L": 360, "circ": 0, "seed": 1,
           "genes": [_gene("g0", [[30, 60]]), _gene("g1", [[126, 144], [153, 165]], a=["D"]), _gene("g2", [[240, 270]], -1)],
           "rules": [rule(["g1"], 0, 15, 0)], "subs": [], "misc": []}
    # a partial gene with codon_start at the record start, region starting at its shifted start
    yield {"fam": "T", "lay": "frameshifted-gene-cut", "L": 360, "circ": 0, "seed": 1,
           "genes": [_gene("g0", [[0, 56]], cs=2, fz=1, a=["D"]), _gene("g1", [[60, 90]], -1), _gene("g2", [[240, 270]])],
           "rules": [dict(rule(["g0", "g1"], 0, 5, 0), side=1, prod="side0")], "subs": [], "misc": []}


def family_p(tier: str) -> Iterator[dict]:
    """ prepeptides with every combination of leader / tail present (R0-R3) on every gene of a region that does
        not start at base 0: the second region of a linear record, and a region over the origin of a circular one
        (genes before and after the origin, both strands) """
    codes = ["R0", "R1", "R2", "R3"]
    for rotation in range(4):
        # linear: region 1 is g0 alone, region 2 holds g2..g5
        _, genes = layout("LI")
        for k, gene in enumerate(genes[2:]):
            gene["a"] = [codes[(k + rotation) % 4]]
        rules = with_products([{"anchors": ["g0"], "nb": 0, "cut": 15},
                               {"anchors": ["g2", "g3", "g4", "g5"], "nb": 15, "cut": 20}])
        rules[1]["prod"], rules[1]["cat"] = PRODUCTS[2]
        yield {"fam": "P", "lay": f"LI/rot{rotation}", "L": L, "circ": 0, "seed": 2, "genes": genes, "rules": rules,
               "subs": [], "misc": []}
        # circular: one region from g4 over the origin to g1
        _, genes = layout("CI")
        for k, name in enumerate(["g4", "g5", "g0", "g1"]):
            next(g for g in genes if g["n"] == name)["a"] = [codes[(k + rotation) % 4]]
        rules = with_products([{"anchors": ["g4", "g5", "g0", "g1"], "nb": 15, "cut": 20}])
        rules[0]["prod"], rules[0]["cat"] = PRODUCTS[2]
        yield {"fam": "P", "lay": f"CI/rot{rotation}", "L": L, "circ": 1, "seed": 2, "genes": genes, "rules": rules,
               "subs": [], "misc": []}


def family_o(tier: str) -> Iterator[dict]:
    """ origin-spanning genes with two exons on one side of the origin (both strands, with a gene feature),
        and an origin-spanning region whose boundary on that side lies inside the inner exon / in the intron /
        inside the outer exon / beyond the gene """
    shapes = {   # exons in coordinate order: (before the origin), (after the origin)
        "2-after": ([[345, 360]], [[0, 30], [40, 55]]),
        "2-before": ([[300, 330], [345, 360]], [[0, 15]]),
    }
    for shape, (before, after) in shapes.items():
        for strand in (1, -1):
            parts = before + after if strand == 1 else after[::-1] + before[::-1]
            for cut in ((20, 35, 48, 70) if shape == "2-after" else (350, 337, 315, 290)):
                region = [[300, 360], [0, cut]] if shape == "2-after" else [[cut, 360], [0, 60]]
                other = [[306, 336]] if shape == "2-after" else [[20, 50]]
                genes = [{"n": "fx", "p": parts, "s": strand, "g": 1}, {"n": "g1", "p": other, "s": 1, "g": 1, "a": ["P"]},
                         {"n": "g2", "p": [[150, 180]], "s": -1}]
                yield {"fam": "O", "lay": f"{shape}/{'fwd' if strand == 1 else 'rev'}/{cut}", "L": L, "circ": 1, "seed": 3,
                       "genes": genes, "rules": [], "subs": [{"p": region, "tool": "cassis", "label": "g1"}], "misc": []}


LONG_NAMES = ["GCF_000123456_1_ASM12345v1_NZ_CP012345_1_c_0001",            # 47 characters: first length that wraps
              "GCF_000123456_1_ASM12345v1_NZ_CP012345_1_cds_0001234",       # 52
              "GCF_000123456_1_ASM12345v1_NZ_CP012345_1_plasmid_pVERIF1_cds_0001234"]   # 68


def family_n(tier: str) -> Iterator[dict]:
    """ a gene whose locus tag is so long that GenBank qualifier values naming it are wrapped over two lines
        (biopython re-joins them with a space), with every decoration kind, on both strands """
    for name in LONG_NAMES:
        for strand in (1, -1):
            for deco_label, deco in DECORATIONS:
                if strand == -1 and tier != "thorough" and deco_label not in ("T", "D", "X", "R2", "all"):
                    continue
                genes = [{"n": f"g{k}", "p": [[15 + 60 * k, 45 + 60 * k]], "s": strand} for k in (0, 1, 3, 4, 5)]
                gene = {"n": name, "p": [[135, 165]], "s": strand, "g": deco.get("g", 0), "note": deco.get("note", 0),
                        "a": list(deco.get("a", []))}
                if deco.get("next"):
                    genes[2].setdefault("a", []).extend(deco["next"])
                genes.insert(2, gene)
                rules = with_products([{"anchors": [name], "nb": 45, "cut": 20}])
                if any(code.startswith("R") for code in gene["a"]):
                    rules[0]["prod"], rules[0]["cat"] = PRODUCTS[2]
                yield {"fam": "N", "lay": f"{len(name)}/{'fwd' if strand == 1 else 'rev'}/{deco_label}", "L": L, "circ": 0,
                       "seed": 4, "genes": genes, "rules": rules, "subs": [], "misc": []}


def family_k(tier: str) -> Iterator[dict]:
    """ records of length 720 with twelve genes and 11-13 protoclusters / candidate clusters (or subregions), so
        that area numbers have two digits: single-gene protoclusters everywhere and one multi-member group whose
        numbers straddle 8/9 (control), 9/10 or 10/11 - a neighbouring pair, a chemical hybrid pair, an interleaved
        pair plus a neighbouring third, and a pair of overlapping subregions """
    length = 720
    for first in (7, 8, 9):         # index of the first gene of the group: its areas are numbered first + 1, ...
        for kind in ("neighbouring", "hybrid", "interleaved+neighbouring", "subregions"):
            genes = [{"n": f"g{k:02d}", "p": [[15 + 60 * k, 45 + 60 * k]], "s": 1 if k % 3 else -1} for k in range(12)]
            genes[first]["a"] = ["P"]
            name = lambda k: f"g{k:02d}"   # noqa: E731
            group = {"neighbouring": [first, first + 1], "hybrid": [first, first + 1],
                     "interleaved+neighbouring": [first, first + 1, first + 2], "subregions": []}[kind]
            rules, subs = [], []
            for k in range(12):
                if k in group:
                    continue
                if kind == "subregions":
                    subs.append({"p": [[60 * k + 10, 60 * k + 50]], "tool": "cassis", "label": name(k)})
                if kind != "subregions" or k % 4 == 0:
                    rules.append({"anchors": [name(k)], "nb": 0, "cut": 15})
            if kind == "neighbouring":
                rules += [{"anchors": [name(first)], "nb": 45, "cut": 10}, {"anchors": [name(first + 1)], "nb": 45, "cut": 10}]
            elif kind == "hybrid":
                rules += [{"anchors": [name(first), name(first + 1)], "nb": 15, "cut": 20},
                          {"anchors": [name(first + 1)], "nb": 0, "cut": 15}]
            elif kind == "interleaved+neighbouring":
                rules += [{"anchors": [name(first), name(first + 2)], "nb": 0, "cut": 15},
                          {"anchors": [name(first + 1)], "nb": 0, "cut": 15},
                          {"anchors": [name(first + 2)], "nb": 15, "cut": 20}]
                genes.append({"n": "g12", "p": [[60 * (first + 2) + 48, 60 * (first + 2) + 57]], "s": 1})
                rules[-1] = {"anchors": ["g12"], "nb": 15, "cut": 20}
            else:
                subs = [sub for sub in subs if sub["label"] not in (name(first), name(first + 1))]
                subs += [{"p": [[60 * first + 10, 60 * first + 80]], "tool": "cassis", "label": name(first)},
                         {"p": [[60 * first + 60, 60 * first + 110]], "tool": "verif-tool", "label": "ext", "side": 1}]
            rules.sort(key=lambda rule: rule["anchors"][0])
            genes.sort(key=lambda gene: gene["p"][0][0])
            rules = [dict(rule, prod=f"{PRODUCTS[i % 3][0]}{'' if i < 3 else i}", cat=PRODUCTS[i % 3][1])
                     for i, rule in enumerate(rules)]
            yield {"fam": "K", "lay": f"{kind}/{first + 1}", "L": length, "circ": 0, "seed": 5, "genes": genes,
                   "rules": rules, "subs": subs, "misc": []}


FAMILIES = {"T": family_t, "P": family_p, "O": family_o, "N": family_n, "K": family_k, "A1": family_a1, "A2": family_a2, "A3": family_a3, "AS": family_as, "AX": family_ax,
            "B": family_b, "M": family_m}


def all_specs(tier: str) -> list[dict]:
    specs = []
    for name, family in FAMILIES.items():
        for spec in family(tier):
            specs.append(spec)
    return specs


# --- thorough only: seeded random mixtures -------------------------------------------------------

def random_spec(rng: Any) -> dict:
    """ a random record: gene positions/lengths/strands/exons off the raster, random decorations,
        1-4 rules over random contiguous anchors with random neighbourhoods, random subregions """
    # pylint: disable=too-many-locals,too-many-branches
    length = rng.choice([240, 300, 360, 399])
    circular = rng.random() < 0.5
    genes: list[dict] = []
    position = rng.randrange(0, 20)
    index = 0
    if circular and rng.random() < 0.5:
        tail, head = 3 * rng.randrange(2, 8), 3 * rng.randrange(2, 8)
        if rng.random() < 0.5:
            genes.append({"n": "g0", "p": [[length - tail, length], [0, head]], "s": 1})
        else:
            genes.append({"n": "g0", "p": [[0, head], [length - tail, length]], "s": -1})
        position = head + rng.randrange(3, 30)
        index = 1
        limit = length - tail - 3
    else:
        limit = length
    while True:
        size = 3 * rng.randrange(6, 21)
        if position + size > limit:
            break
        strand = rng.choice([1, -1])
        gene = {"n": f"g{index}", "s": strand, "p": [[position, position + size]]}
        if size >= 36 and rng.random() < 0.3:
            cut = position + 3 * rng.randrange(2, size // 3 - 4)
            gap = rng.randrange(3, 9)
            parts = [[position, cut], [cut + gap, position + size]]
            gene["p"] = parts if strand == 1 else parts[::-1]
        genes.append(gene)
        index += 1
        position += size + rng.choice([0, 0, 3, 10, 25, 40])
    if len(genes) < 2:
        return random_spec(rng)
    if not circular and rng.random() < 0.3:
        first = genes[0]
        if first["s"] == 1 and len(first["p"]) == 1:
            first["p"] = [[0, first["p"][0][1]]]
            first["cs"] = rng.choice([1, 2, 3])
            first["fz"] = 1
    codes = ["F", "f", "N", "P", "T", "D", "R0", "R1", "R2", "R3", "Pz", "Tz", "Dz", "R2z"]
    for gene in genes:
        gene["g"] = int(rng.random() < 0.4)
        gene["note"] = int(rng.random() < 0.3)
        if rng.random() < 0.6:
            chosen = rng.sample(codes, rng.randrange(1, 4))
            if sum(code.startswith("R") for code in chosen) > 1:
                chosen = [code for code in chosen if not code.startswith("R")] + ["R1"]
            gene["a"] = chosen
    rules = []
    for i in range(rng.randrange(0, 5)):
        first = rng.randrange(len(genes))
        last = min(len(genes) - 1, first + rng.choice([0, 0, 1, 2]))
        product, category = PRODUCTS[i % len(PRODUCTS)]
        rule = {"anchors": [g["n"] for g in genes[first:last + 1]], "nb": rng.choice([0, 5, 20, 40, 90]),
                "cut": rng.choice([5, 20, 50]), "prod": product if i < 3 else f"other{i}", "cat": category}
        if rng.random() < 0.2:
            rule["side"] = 1
            rule["prod"] = f"side{i}"
        elif rng.random() < 0.15:
            rule["t2"] = 1
        rules.append(rule)
    subs = []
    for i in range(rng.choice([0, 0, 1, 1, 2])):
        start = rng.randrange(0, length - 30)
        end = rng.randrange(start + 20, length + 1)
        parts = [[start, end]]
        if circular and rng.random() < 0.3:
            parts = [[rng.randrange(length // 2, length - 5), length], [0, rng.randrange(5, length // 2)]]
        if rng.random() < 0.4:
            subs.append({"p": parts, "tool": "verif-tool", "label": f"ext{i}", "side": 1})
        else:
            subs.append({"p": parts, "tool": rng.choice(["cassis", "other"]), "label": rng.choice(["", genes[0]["n"]])})
    if not rules and not subs:
        subs.append({"p": [[0, length // 2]], "tool": "cassis", "label": ""})
    misc = [code for code in ("tta", "tfbs", "inmisc", "extmotif", "ordfwd", "ordrev") if rng.random() < 0.25]
    return {"fam": "R", "lay": "random", "L": length, "circ": int(circular), "seed": rng.randrange(1000),
            "genes": genes, "rules": rules, "subs": subs, "misc": misc}
