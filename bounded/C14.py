"""Bounded stand-in for C14 - NRPS/PKS modules partition a gene's domains in order and obey the
module rules (antismash/detection/nrps_pks_domains/module_identification.py).

Inputs: sequences of domain *symbols* ("label" or "label:subtype"), one HMMResult per symbol at
increasing, non-overlapping protein positions; single genes and runs of adjacent genes with strands.
The label alphabet is collapsed to behaviour classes that are recomputed on every run from the REAL
tables/predicates (two labels are equivalent iff every Component predicate and every literal label
test of Module agrees); PKS_KS additionally carries the subtypes None / Trans-AT-KS / Iterative-KS.

The oracle is written from the property statement with its own frozen role table (below); it never
calls Component.is_*/Module.ensure_suitable.  What the real code reports (is_complete, the modules,
the merged module, the reloaded module) is compared with that oracle.
"""
from __future__ import annotations

import itertools
import json
from typing import Any, Callable, Dict, Iterator, List, Optional, Sequence, Tuple

RULE = (
    "case = one gene (sequence of domain symbols = behaviour-class representatives of the real "
    "CLASSIFICATIONS table x KS subtypes None/Trans-AT-KS/Iterative-KS; family 'single', optionally handed "
    "over in reverse order) or a run of 2-3 adjacent genes with strands (family 'genes', driven exactly like "
    "generate_domains drives combine_modules). quick, all exhaustive: single genes of length <= 3 over all 24 "
    "symbols (length 2-3 also reversed), length 4 over 20 (dropping 4 classes that differ only in reports no "
    "clause reads), length 5 over 9 and length 6 over 6 core symbols (A, C, Trans-AT-KS, CP, KR, TD, "
    "LPG_synthase_C, Beta_elim_lyase, COM); gene pairs (every cut) of total length 2 over all symbols on all "
    "4 strand combinations, total 3 over all symbols on +/+, total 3-4 over 12 merge-relevant symbols on "
    "-/- resp. +/+, total 4 over 7 core symbols on -/-; gene triples of total length 4 over 7 core symbols "
    "on +++ and ---. thorough: 8000 seeded random cases per shard first (genes of length 6-12, pairs, "
    "triples, mixed strands, class members rotated), then the quick families, other class members "
    "(rotations 1, 2) to length 3, and one step wider everywhere (single length 5 over all symbols, 6 over "
    "11, 7 over 7; pairs total 4 over all, 5 over 12; triples total 5). Non-trivial: single gene with >= 2 "
    "non-docking domains; gene run with a same-strand junction that has non-docking domains on both sides. "
    "Distinct = distinct case."
)
EXHAUSTIVE = {"quick": True, "thorough": False}

N_SHARDS = 48

# ----------------------------------------------------------------------------------------------
# the oracle's own role table (frozen from the documentation of the module layout; NOT read from
# the code under test).  Unknown labels (added upstream later) fall back to their class key.
# ----------------------------------------------------------------------------------------------
O_ADENYLATION = {"AMP-binding", "A-OX"}
O_ACYLTRANSFERASE = {"PKS_AT"}
O_CONDENSATION = {"Cglyc", "Condensation_DCL", "Condensation_LCL", "Condensation_sid",
                  "Condensation_Starter", "Condensation_Dual", "Heterocyclization"}
O_END = {"Abhydrolase_1", "cAT", "Epimerization", "Thioesterase", "TD"}
O_KETOSYNTHASE = {"PKS_KS"}
O_MODIFIER = {"PKS_DH", "PKS_DH2", "PKS_DHt", "PKS_KR", "PKS_ER", "cMT", "nMT", "oMT",
              "Beta_elim_lyase", "LPG_synthase_C", "TauD"}
O_CARRIER = {"ACP", "ACP_beta", "PCP", "PKS_PP", "PP-binding"}
O_ALT_STARTER = {"CAL_domain", "SAT"}
O_IGNORED = {"NRPS-COM_Cterm", "NRPS-COM_Nterm", "PKS_Docking_Cterm", "PKS_Docking_Nterm"}
O_SPECIAL = {"Trans-AT_docking", "TIGR01720"}
O_OTHER = {"ACPS", "Aminotran_1_2", "Aminotran_3", "Aminotran_4", "Aminotran_5", "B", "ECH", "F",
           "FkbH", "GNAT", "Hal", "IBH_Asp", "Interface", "NAD_binding_4", "Polyketide_cyc",
           "Polyketide_cyc2", "PS", "PT", "TIGR02353", "X"}
O_KNOWN = set().union(O_ADENYLATION, O_ACYLTRANSFERASE, O_CONDENSATION, O_END, O_KETOSYNTHASE,
                      O_MODIFIER, O_CARRIER, O_ALT_STARTER, O_IGNORED, O_SPECIAL, O_OTHER)
_FALLBACK = {"A": "A", "AT": "AT", "C": "C", "S": "S", "E": "E", "KS": "KS", "+": "+", "CP": "CP",
             "!": "!", ".": ".", "ignore": "ignore"}
DOUBLE_CP_TAIL = ("LPG_synthase_C", "Beta_elim_lyase")


def _kind(label: str) -> str:
    """The oracle's coarse kind of a label: A AT C S E KS + CP ! . ignore"""
    if label in O_ADENYLATION:
        return "A"
    if label in O_ACYLTRANSFERASE:
        return "AT"
    if label in O_CONDENSATION:
        return "C"
    if label in O_ALT_STARTER:
        return "S"
    if label in O_END:
        return "E"
    if label in O_KETOSYNTHASE:
        return "KS"
    if label in O_MODIFIER:
        return "+"
    if label in O_CARRIER:
        return "CP"
    if label in O_SPECIAL:
        return "!"
    if label in O_IGNORED:
        return "ignore"
    if label in O_OTHER:
        return "."
    # a label the frozen table does not know: trust its class key only
    from antismash.detection.nrps_pks_domains import module_identification as mi
    return _FALLBACK.get(mi.classify(label), ".")


def o_loader(label: str) -> bool:
    """can load the monomer: A, AT, CoA-ligase"""
    return _kind(label) in ("A", "AT") or label == "CAL_domain"


def o_pure_starter(label: str) -> bool:
    """can only start a module: C, KS, SAT"""
    return _kind(label) in ("C", "KS") or (_kind(label) == "S" and not o_loader(label))


def o_starter_capable(label: str) -> bool:
    return o_pure_starter(label) or o_loader(label)


def o_pks(label: str) -> bool:
    return label.startswith("PKS") or _kind(label) in ("AT", "KS")


def o_nrps(label: str) -> bool:
    return _kind(label) in ("A", "C")


Comp = Tuple[str, Optional[str]]  # (label, subtype)


def o_trans_at(comps: Sequence[Comp]) -> bool:
    """documented trans-AT layout: a KS starter (Trans-AT-KS subtype, or any KS together with a
    trans-AT docking domain), no loader"""
    starters = [c for c in comps if o_pure_starter(c[0])]
    if not starters or any(o_loader(c[0]) for c in comps):
        return False
    if _kind(starters[0][0]) != "KS":
        return False
    return starters[0][1] == "Trans-AT-KS" or any(c[0] == "Trans-AT_docking" for c in comps)


def o_may_be_complete(comps: Sequence[Comp]) -> bool:
    """'complete only with starter, loader and carrier protein (or trans-AT with carrier protein)'"""
    has_cp = any(_kind(c[0]) == "CP" for c in comps)
    if not has_cp:
        return False
    if any(o_starter_capable(c[0]) for c in comps) and any(o_loader(c[0]) for c in comps):
        return True
    return o_trans_at(comps)


LAYOUT_CLAUSES = (
    "at-most-one-starter", "at-most-one-loader", "at-most-one-carrier-protein",
    "at-most-one-terminating-domain", "modifications-before-carrier-protein",
    "no-nrps-pks-starter-loader-mix", "documented-order",
)


def layout_violations(comps: Sequence[Comp]) -> Dict[str, str]:
    """clause -> text for every layout rule of the statement the component list breaks"""
    out: Dict[str, str] = {}
    comps = [c for c in comps if _kind(c[0]) != "ignore"]  # docking/COM domains aside
    labels = [c[0] for c in comps]
    pure = [i for i, lab in enumerate(labels) if o_pure_starter(lab)]
    loaders = [i for i, lab in enumerate(labels) if o_loader(lab)]
    carriers = [i for i, lab in enumerate(labels) if _kind(lab) == "CP"]
    ends = [i for i, lab in enumerate(labels) if _kind(lab) == "E"]
    mods = [i for i, lab in enumerate(labels) if _kind(lab) == "+"]
    shown = ",".join(labels)
    if len(pure) > 1:
        out["at-most-one-starter"] = f"{len(pure)} starters in [{shown}]"
    if len(loaders) > 1:
        out["at-most-one-loader"] = f"{len(loaders)} loaders in [{shown}]"
    if len(carriers) > 1:
        out["at-most-one-carrier-protein"] = f"{len(carriers)} carrier proteins in [{shown}]"
    if len(ends) > 1:
        out["at-most-one-terminating-domain"] = f"{len(ends)} terminating domains in [{shown}]"
    if carriers:
        trans_at = o_trans_at(comps)
        late = [i for i in mods if i > carriers[0] and not (trans_at and labels[i] == "PKS_KR")]
        if late:
            out["modifications-before-carrier-protein"] = \
                f"modification {labels[late[0]]} after the carrier protein in [{shown}] (trans-AT: {trans_at})"
    if pure and loaders:
        starter, loader = labels[pure[0]], labels[loaders[0]]
        if (o_pks(starter) and o_nrps(loader)) or (o_nrps(starter) and o_pks(loader)):
            out["no-nrps-pks-starter-loader-mix"] = f"starter {starter} with loader {loader} in [{shown}]"
    # [starter] loader [modification...] carrier_protein [finalisation]
    rank = []
    for i, lab in enumerate(labels):
        if i in pure:
            rank.append((0, i))
        elif i in loaders:
            rank.append((1, i))
        elif i in carriers:
            rank.append((3, i))
        elif i in ends:
            rank.append((4, i))
    ranks = [r for r, _ in rank]
    if ranks != sorted(ranks):
        out["documented-order"] = f"starter/loader/carrier/end out of order in [{shown}]"
    elif ends and any(i > ends[0] for i in mods):
        out["documented-order"] = f"modification after the terminating domain in [{shown}]"
    elif loaders and any(i < loaders[0] for i in mods):
        out["documented-order"] = f"modification before the loader in [{shown}]"
    return out


# ----------------------------------------------------------------------------------------------
# alphabet: behaviour classes from the REAL tables
# ----------------------------------------------------------------------------------------------
KS_SUBTYPES = ("Trans-AT-KS", "Iterative-KS")
_PREDICATES = ("is_adenylation", "is_acyltransferase", "is_coa_ligase", "is_condensation", "is_starter",
               "is_loader", "is_modification", "is_carrier_protein", "is_end", "is_ignored", "is_special",
               "is_fused_starter", "is_pks_specific", "is_nrps_specific")
_ALPHABET_CACHE: Dict[str, Any] = {}


def _mi():
    from antismash.detection.nrps_pks_domains import module_identification as mi
    return mi


def _hmm(label: str, start: int, end: int, internal=None):
    from antismash.common.hmmscan_refinement import HMMResult
    return HMMResult(label, start, end, 1e-10, 100.0, internal_hits=internal)


def behaviour_classes() -> List[List[str]]:
    """Partition of the real label alphabet; each class sorted, classes sorted by first member."""
    if "classes" in _ALPHABET_CACHE:
        return _ALPHABET_CACHE["classes"]
    mi = _mi()
    labels = sorted(set().union(*mi.CLASSIFICATIONS.values()))
    literal_sets = [
        {"PKS_KR"}, {"Trans-AT_docking"}, {"Thioesterase", "TD"}, {"CAL_domain"},
        {"Condensation_Starter"} | set(mi.ALTERNATE_STARTERS),
    ]
    groups: Dict[Any, List[str]] = {}
    for label in labels:
        try:
            comp = mi.Component(_hmm(label, 0, 10), "x")
            sig: Tuple[Any, ...] = tuple(bool(getattr(comp, name)()) for name in _PREDICATES)
            sig += (comp.classification,)
        except Exception as err:  # pylint: disable=broad-except
            sig = ("unclassifiable", type(err).__name__)  # keeps such a label in the alphabet on its own
            sig += (label,)
        sig += tuple(label in lits for lits in literal_sets)
        sig += tuple(tuple(i for i, lab in enumerate(case) if lab == label)
                     for case in sorted(mi.DOUBLE_TRANSPORTER_CASES))
        # where the frozen oracle table and the real table disagree the label stands alone
        sig += (_kind(label) if label in O_KNOWN else "?",)
        groups.setdefault(sig, []).append(label)
    classes = sorted(groups.values(), key=lambda members: members[0])
    _ALPHABET_CACHE["classes"] = classes
    return classes


def symbols(rotation: int = 0) -> List[str]:
    """One representative per class (member `rotation` mod size) + KS subtypes."""
    out = []
    for members in behaviour_classes():
        label = members[rotation % len(members)]
        out.append(label)
        if label in O_KETOSYNTHASE:
            out.extend(f"{label}:{sub}" for sub in KS_SUBTYPES)
    return out


def _pick(all_syms: List[str], wanted: Sequence[str]) -> List[str]:
    """The symbols of the class representatives that stand for the wanted labels (+ subtyped forms)."""
    classes = behaviour_classes()
    out = []
    for want in wanted:
        label, _, sub = want.partition(":")
        for members in classes:
            if label in members:
                rep = next((s for s in all_syms if s.partition(":")[0] in members and ":" not in s), None)
                if rep is not None:
                    sym = f"{rep}:{sub}" if sub else rep
                    if sym in all_syms and sym not in out:
                        out.append(sym)
    return out


CORE14 = ["Cglyc", "AMP-binding", "PKS_AT", "PKS_KS", "PKS_KS:Trans-AT-KS", "ACP", "PKS_PP", "PKS_KR",
          "TD", "Epimerization", "Interface", "Trans-AT_docking", "CAL_domain", "NRPS-COM_Nterm"]
CORE16 = CORE14 + ["cMT", "ACPS"]
CORE11 = ["Cglyc", "AMP-binding", "PKS_KS", "PKS_KS:Trans-AT-KS", "ACP", "PKS_KR", "TD",
          "LPG_synthase_C", "Beta_elim_lyase", "Trans-AT_docking", "NRPS-COM_Nterm"]
CORE7 = ["AMP-binding", "PKS_KS:Trans-AT-KS", "ACP", "PKS_KR", "TD", "LPG_synthase_C", "Beta_elim_lyase"]
CORE12 = CORE11 + ["PKS_AT"]
CORE9 = [sym for sym in CORE11 if sym not in ("PKS_KS", "Trans-AT_docking")]
# classes that differ from a kept class only in a report that no clause looks at (is_iterative,
# is_starter_module, is_termination_module) or that duplicate another ignored class
LEN4_DROPPED = ("PKS_KS:Iterative-KS", "Condensation_Starter", "PKS_Docking_Cterm", "Abhydrolase_1")
PAIR12 = [sym for sym in CORE14 if sym not in ("Epimerization", "NRPS-COM_Nterm")]
CORE6 = ["AMP-binding", "PKS_KS:Trans-AT-KS", "ACP", "PKS_KR", "LPG_synthase_C", "Beta_elim_lyase"]

STRAND_COMBOS = ((1, 1), (-1, -1), (1, -1), (-1, 1))


# ----------------------------------------------------------------------------------------------
# case streams
# ----------------------------------------------------------------------------------------------
def _splits(seq: Tuple[str, ...], parts: int) -> Iterator[List[List[str]]]:
    """all ways to cut seq into `parts` non-empty consecutive genes"""
    n = len(seq)
    for cuts in itertools.combinations(range(1, n), parts - 1):
        bounds = (0,) + cuts + (n,)
        yield [list(seq[bounds[i]:bounds[i + 1]]) for i in range(parts)]


def _families(tier: str) -> List[Tuple[str, int, List[str]]]:
    """(kind, length, alphabet) of every exhaustively enumerated family of the tier;
    thorough = the quick families followed by the wider ones (so a truncated run loses the widest first)"""
    syms = symbols()
    core16, core11, core7 = _pick(syms, CORE16), _pick(syms, CORE11), _pick(syms, CORE7)
    core9, pair12 = _pick(syms, CORE9), _pick(syms, PAIR12)
    dropped = _pick(syms, LEN4_DROPPED)
    most = [sym for sym in syms if sym not in dropped]
    core12, core6 = _pick(syms, CORE12), _pick(syms, CORE6)
    fams: List[Tuple[str, int, List[str]]] = []
    for length in (1, 2, 3):
        fams.append(("single", length, syms))
    fams.append(("single", 4, most))
    for length in (2, 3):
        fams.append(("single-rev", length, syms))
    fams += [("single", 5, core9), ("single", 6, core6)]
    fams.append(("pair-all-strands", 2, syms))
    fams += [("pair-plus", 3, syms), ("pair-minus", 3, pair12), ("pair-plus", 4, pair12)]
    fams.append(("pair-minus", 4, core7))
    fams.append(("triple", 4, core7))
    if tier == "quick":
        return fams
    for rotation in (1, 2):
        rotated = symbols(rotation)
        for length in (1, 2, 3):
            fams.append(("single", length, rotated))
        fams.append(("pair-plus", 3, rotated))
    fams += [("single", 4, syms), ("pair-same-strand", 3, syms), ("pair-all-strands", 3, core16),
             ("pair-minus", 4, core11), ("triple", 4, core11), ("triple", 5, core7),
             ("single", 6, core11), ("single", 7, core7), ("pair-plus", 4, syms), ("pair-plus", 5, core12),
             ("single", 5, syms)]
    return fams


def exhaustive_cases(tier: str, k: int = 0, n: int = 1) -> Iterator[Dict[str, Any]]:
    """The deterministic part of a tier; shard k of n takes the k-th of n contiguous blocks of the base
    sequences of every family (neighbours share prefixes, which keeps the per-process caches warm)."""
    for kind, length, alphabet in _families(tier):
        total = len(alphabet) ** length
        lo, hi = total * k // n, total * (k + 1) // n
        for seq in itertools.islice(itertools.product(alphabet, repeat=length), lo, hi):
            if kind == "single":
                yield {"fam": "single", "seq": list(seq)}
            elif kind == "single-rev":
                yield {"fam": "single", "seq": list(seq), "order": "rev"}
            elif kind == "pair-all-strands":
                for genes in _splits(seq, 2):
                    for strands in STRAND_COMBOS:
                        yield {"fam": "genes", "genes": genes, "strands": list(strands)}
            elif kind == "pair-same-strand":
                for genes in _splits(seq, 2):
                    for strands in STRAND_COMBOS[:2]:
                        yield {"fam": "genes", "genes": genes, "strands": list(strands)}
            elif kind == "pair-plus":
                for genes in _splits(seq, 2):
                    yield {"fam": "genes", "genes": genes, "strands": [1, 1]}
            elif kind == "pair-minus":
                for genes in _splits(seq, 2):
                    yield {"fam": "genes", "genes": genes, "strands": [-1, -1]}
            elif kind == "triple":
                for genes in _splits(seq, 3):
                    for strands in ((1, 1, 1), (-1, -1, -1)):
                        yield {"fam": "genes", "genes": genes, "strands": list(strands)}


def random_case(rng, rotation: int) -> Dict[str, Any]:
    """thorough only: beyond the exhaustive bound"""
    syms = symbols(rotation)
    kind = rng.random()
    weighted = syms + _pick(syms, CORE11) * 3
    if kind < 0.4:
        return {"fam": "single", "seq": [rng.choice(weighted) for _ in range(rng.randint(6, 12))],
                "order": rng.choice(["fwd", "rev", "fwd"])}
    count = 2 if kind < 0.75 else 3
    strand = rng.choice([1, -1])
    strands = [strand if rng.random() < 0.85 else -strand for _ in range(count)]
    genes = [[rng.choice(weighted) for _ in range(rng.randint(1, 5))] for _ in range(count)]
    return {"fam": "genes", "genes": genes, "strands": strands}


# ----------------------------------------------------------------------------------------------
# evaluation on the real code
# ----------------------------------------------------------------------------------------------
def _domains_for(seq: Sequence[str], gene_index: int = 0) -> list:
    out = []
    for i, sym in enumerate(seq):
        label, _, sub = sym.partition(":")
        start = 10 + 100 * i + 5 * gene_index
        internal = [_hmm(sub, start + 1, start + 50)] if sub else None
        out.append(_hmm(label, start, start + 90, internal))
    return out


def _comps_of(module) -> List[Comp]:
    out = []
    for comp in module.components:
        names = comp.domain.detailed_names
        out.append((comp.domain.hit_id, names[1] if len(names) > 1 else None))
    return out


def _ident(domain) -> Tuple[str, int, int]:
    return (domain.hit_id, domain.query_start, domain.query_end)


_FLAG_METHODS = ("is_complete", "is_trans_at", "is_iterative", "is_pks", "is_nrps", "is_terminated",
                 "is_termination_module", "is_starter_module", "is_coa_ligase", "is_empty")


def _state(module) -> Dict[str, Any]:
    """Everything observable about a module (for reload equality)."""
    comps = list(module.components)
    position = {id(comp): i for i, comp in enumerate(comps)}

    def index(comp):
        return None if comp is None else position.get(id(comp), "not-a-component")

    state = {
        "str": str(module),
        "components": [c.to_json() for c in comps],
        "first_in_cds": module._first_in_cds,  # pylint: disable=protected-access
        "starter": index(module._starter),  # pylint: disable=protected-access
        "loader": index(module._loader),  # pylint: disable=protected-access
        "carrier": index(module._carrier_protein),  # pylint: disable=protected-access
        "end": index(module._end),  # pylint: disable=protected-access
        "modifications": [index(c) for c in module._modifications],  # pylint: disable=protected-access
        "others": [index(c) for c in module._others],  # pylint: disable=protected-access
        "pending_accept": module._unambiguous_accept,  # pylint: disable=protected-access
    }
    for name in _FLAG_METHODS:
        state[name] = bool(getattr(module, name)())
    if comps:
        state["start"] = module.start
        state["end_pos"] = module.end
        state["monomer"] = module.get_monomer("mmal")
    return state


class _Verdicts:
    """clause -> first failure text; clauses evaluated at least once are remembered"""
    def __init__(self) -> None:
        self.seen: Dict[str, Optional[str]] = {}

    def note(self, clause: str, ok: bool, detail: str = "") -> None:
        if clause not in self.seen:
            self.seen[clause] = None
        if not ok and self.seen[clause] is None:
            self.seen[clause] = detail or "violated"


_LAYOUT_CACHE: Dict[Tuple[Comp, ...], Tuple[Dict[str, str], bool]] = {}
_RELOAD_CACHE: Dict[str, Optional[str]] = {}


def _oracle_for(comps: Tuple[Comp, ...]) -> Tuple[Dict[str, str], bool]:
    """(layout violations, may be complete) - pure functions of the component list, hence cached"""
    hit = _LAYOUT_CACHE.get(comps)
    if hit is None:
        hit = (layout_violations(comps), o_may_be_complete(comps))
        if len(_LAYOUT_CACHE) < 200000:
            _LAYOUT_CACHE[comps] = hit
    return hit


def _reload_verdict(mi, module) -> Optional[str]:
    """None if Module.from_json(saved form) is identical to the module, else the difference.
    The saved form is a function of the components and first_in_cds, both part of the state, so the
    verdict is cached per complete state of the ORIGINAL module (the state is always recomputed)."""
    before = _state(module)
    key = repr(before)
    if key in _RELOAD_CACHE:
        return _RELOAD_CACHE[key]
    try:
        saved = json.loads(json.dumps(module.to_json()))
        rebuilt = mi.Module.from_json(saved)
        after = _state(rebuilt)
        diff = [name for name in before if before[name] != after.get(name)]
        verdict = None
        if diff:
            verdict = (f"{module} reloaded as {rebuilt}; differs in {diff}: "
                       + "; ".join(f"{k}: {before[k]!r} -> {after.get(k)!r}" for k in diff[:4]))
    except Exception as err:  # pylint: disable=broad-except
        verdict = f"reloading {module} raised {type(err).__name__}: {err}"
    if len(_RELOAD_CACHE) < 200000:
        _RELOAD_CACHE[key] = verdict
    return verdict


def _check_module(mi, module, verdicts: _Verdicts, reload: bool = True) -> None:
    comps = tuple(_comps_of(module))
    verdicts.note("no-empty-module", len(comps) > 0, "empty module in the result")
    broken, may_be_complete = _oracle_for(comps)
    for clause in LAYOUT_CLAUSES:
        verdicts.note(clause, clause not in broken, broken.get(clause, ""))
    try:
        complete = module.is_complete()
    except Exception as err:  # pylint: disable=broad-except
        verdicts.note("never-fails", False, f"is_complete raised {err!r} on {module}")
        complete = False
    if complete and not may_be_complete:
        verdicts.note("complete-only-with-required-parts", False, f"{module} reported complete")
    else:
        verdicts.note("complete-only-with-required-parts", True)
    if not reload:
        return
    verdict = _reload_verdict(mi, module)
    verdicts.note("reload-identical", verdict is None, verdict or "")


def evaluate_single(case: Dict[str, Any]) -> Dict[str, Optional[str]]:
    """All clauses for one gene -> {clause: None | failure text}"""
    mi = _mi()
    verdicts = _Verdicts()
    seq = case["seq"]
    domains = _domains_for(seq)
    given = list(reversed(domains)) if case.get("order") == "rev" else list(domains)
    try:
        modules = mi.build_modules_for_cds(given, "geneA")
    except Exception as err:  # pylint: disable=broad-except
        verdicts.note("never-fails", False, f"build_modules_for_cds raised {type(err).__name__}: {err}")
        return verdicts.seen
    verdicts.note("never-fails", True)
    expected = [_ident(d) for d in domains if _kind(d.hit_id) != "ignore"]
    got = [_ident(c.domain) for m in modules for c in m.components if _kind(c.domain.hit_id) != "ignore"]
    if got == expected:
        verdicts.note("partition-in-order-no-loss-no-duplication", True)
    else:
        verdicts.note("partition-in-order-no-loss-no-duplication", False,
                      f"domains {[e[0] for e in expected]} became {[str(m) for m in modules]} = {[g[0] for g in got]}")
    for module in modules:
        _check_module(mi, module, verdicts)
    return verdicts.seen


_CDS_CACHE: Dict[int, Any] = {}


def _cds(strand: int, index: int):
    key = strand * 10 + index
    if key not in _CDS_CACHE:
        from antismash.common.secmet.features import CDSFeature
        from antismash.common.secmet.locations import FeatureLocation
        _CDS_CACHE[key] = CDSFeature(FeatureLocation(100 * index, 100 * index + 90, strand),
                                     translation="M" * 30, locus_tag=f"gene{index}")
    return _CDS_CACHE[key]


def evaluate_genes(case: Dict[str, Any]) -> Dict[str, Optional[str]]:
    """A run of adjacent genes, driven like nrps_pks_domains.generate_domains drives combine_modules:
       + strand gene: combine_modules(this, previous); - strand gene: combine_modules(previous, this)."""
    mi = _mi()
    verdicts = _Verdicts()
    prev = None
    for index, (seq, strand) in enumerate(zip(case["genes"], case["strands"])):
        domains = _domains_for(seq, index)
        try:
            modules = mi.build_modules_for_cds(domains, f"gene{index}")
        except Exception as err:  # pylint: disable=broad-except
            verdicts.note("never-fails", False, f"build_modules_for_cds raised {type(err).__name__}: {err}")
            return verdicts.seen
        info = mi.CDSModuleInfo(_cds(strand, index), modules)
        if prev is not None and prev.modules and info.modules:
            if strand == -1:
                current, previous = prev, info
            else:
                current, previous = info, prev
            same_strand = current.cds.location.strand == previous.cds.location.strand
            before_prev, before_cur = list(previous.modules), list(current.modules)
            flat_before = [_ident(c.domain) for m in before_prev + before_cur for c in m.components]
            try:
                merged = mi.combine_modules(current, previous)
            except Exception as err:  # pylint: disable=broad-except
                verdicts.note("merge-never-fails", False,
                              f"combine_modules({before_cur}, {before_prev}) raised {type(err).__name__}: {err}")
                return verdicts.seen
            verdicts.note("merge-never-fails", True)
            flat_after = [_ident(c.domain) for m in previous.modules + current.modules for c in m.components]
            if flat_after == flat_before:
                verdicts.note("merge-keeps-all-domains-in-order", True)
            else:
                verdicts.note("merge-keeps-all-domains-in-order", False,
                              f"{before_prev} + {before_cur} became {previous.modules} + {current.modules}")
            if merged is None:
                unchanged = (len(previous.modules) == len(before_prev) and len(current.modules) == len(before_cur)
                             and all(a is b for a, b in zip(previous.modules, before_prev))
                             and all(a is b for a, b in zip(current.modules, before_cur)))
                if unchanged:
                    verdicts.note("no-merge-leaves-modules-unchanged", True)
                else:
                    verdicts.note("no-merge-leaves-modules-unchanged", False,
                                  f"no module returned but {before_prev} + {before_cur} became "
                                  f"{previous.modules} + {current.modules}")
            else:
                verdicts.note("merge-only-on-same-strand", same_strand,
                              f"merged {merged} across strands {previous.cds.location.strand}/"
                              f"{current.cds.location.strand}")
                try:
                    reported = merged.is_complete()
                except Exception as err:  # pylint: disable=broad-except
                    reported = False
                    verdicts.note("merge-never-fails", False, f"is_complete raised {err!r}")
                verdicts.note("merge-only-if-result-complete",
                              reported and o_may_be_complete(_comps_of(merged)),
                              f"merged module {merged} (reported complete: {reported})")
                verdicts.note("merged-module-is-listed-once",
                              sum(1 for m in previous.modules + current.modules if m is merged) == 1,
                              f"{merged} not exactly once in {previous.modules} + {current.modules}")
                _check_module(mi, merged, verdicts)
            for module in previous.modules + current.modules:
                if module is not merged:
                    _check_module(mi, module, verdicts, reload=False)
        prev = info
    return verdicts.seen


def evaluate(case: Dict[str, Any]) -> Dict[str, Optional[str]]:
    if case["fam"] == "single":
        return evaluate_single(case)
    if case["fam"] == "genes":
        return evaluate_genes(case)
    raise ValueError(f"unknown family {case['fam']}")


def _nontrivial(case: Dict[str, Any]) -> bool:
    if case["fam"] == "single":
        return sum(1 for sym in case["seq"] if _kind(sym.partition(":")[0]) != "ignore") >= 2
    genes, strands = case["genes"], case["strands"]
    for i in range(len(genes) - 1):
        if strands[i] == strands[i + 1] and all(
                any(_kind(sym.partition(":")[0]) != "ignore" for sym in gene) for gene in genes[i:i + 2]):
            return True
    return False


def _report(case: Dict[str, Any], run) -> None:
    try:
        verdicts = evaluate(case)
    except Exception as err:  # pylint: disable=broad-except
        import traceback
        run.error(f"harness failure on {case!r}: {err!r}\n{traceback.format_exc()}")
        return
    nontrivial = _nontrivial(case)
    first = True
    for clause, failure in verdicts.items():
        name = clause if failure is None else _bucket(clause, case)
        run.check(name, failure is None, case, nontrivial=nontrivial and first, detail=failure or "")
        first = False


# ----------------------------------------------------------------------------------------------
# driver interface
# ----------------------------------------------------------------------------------------------
def shards(tier: str, seed: int) -> list:
    _mi()  # import antismash once in the parent; the forked workers inherit it
    behaviour_classes()
    return [{"tier": tier, "k": k, "n": N_SHARDS} for k in range(N_SHARDS)]


RANDOM_PER_SHARD = 8000


def run_shard(shard, run) -> None:
    tier, k, n = shard["tier"], shard["k"], shard["n"]
    if tier != "quick":
        # the seeded part first: it must not be the victim of a truncated exhaustive part
        for count in range(RANDOM_PER_SHARD):
            if count % 256 == 0 and run.out_of_time():
                return
            _report(random_case(run.rng, run.rng.randrange(8)), run)
    for index, case in enumerate(exhaustive_cases(tier, k, n)):
        if index % 512 == 0 and run.out_of_time():
            return
        _report(case, run)


def replay(case) -> list:
    verdicts = evaluate(case)
    return [f"{clause}: {failure}" for clause, failure in verdicts.items() if failure is not None]


# ----------------------------------------------------------------------------------------------
# known findings (classes of inputs at one clause); see /verif/known_findings.json
# ----------------------------------------------------------------------------------------------
def _labels(seq: Sequence[str]) -> List[str]:
    return [sym.partition(":")[0] for sym in seq if _kind(sym.partition(":")[0]) != "ignore"]


def _all_gene_seqs(case) -> List[List[str]]:
    return [case["seq"]] if case["fam"] == "single" else list(case["genes"])


def _has_double_transporter(case) -> bool:
    """some gene has a carrier protein and later a carrier protein directly followed by
    LPG_synthase_C, Beta_elim_lyase"""
    for seq in _all_gene_seqs(case):
        labels = [sym.partition(":")[0] for sym in seq]
        for j in range(1, len(labels) - 2):
            if (_kind(labels[j]) == "CP" and tuple(labels[j + 1:j + 3]) == DOUBLE_CP_TAIL
                    and any(_kind(lab) == "CP" for lab in labels[:j])):
                return True
    return False


def _junctions(case) -> Iterator[Tuple[List[str], List[str]]]:
    """(upstream gene, downstream gene) symbol lists of every same-strand junction of a gene run"""
    if case.get("fam") != "genes":
        return
    genes, strands = case["genes"], case["strands"]
    for i in range(len(genes) - 1):
        if strands[i] != strands[i + 1]:
            continue
        if strands[i + 1] == -1:
            yield genes[i + 1], genes[i]
        else:
            yield genes[i], genes[i + 1]


def _f1_kr_after_terminated_trans_at(clause: str, case) -> bool:
    """merge crashes: a trans-AT head (Trans-AT-KS or a trans-AT docking domain upstream of the junction) is
    merged with a leading fragment that carries a terminating domain, and the module after it is a PKS_KR"""
    if clause != "merge-never-fails":
        return False
    for up, down in _junctions(case):
        trans_at_hint = any(sym.endswith(":Trans-AT-KS") for sym in up) or \
            any(sym.partition(":")[0] == "Trans-AT_docking" for sym in list(up) + list(down))
        if not trans_at_hint:
            continue
        labels = [lab for lab in _labels(down) if _kind(lab) != "!"]
        for i in range(len(labels) - 1):
            if _kind(labels[i]) == "E" and labels[i + 1] == "PKS_KR":
                return True
    return False


def _f2_double_transporter(clause: str, case) -> bool:
    """the deliberate DOUBLE_TRANSPORTER_CASES exception: CP, CP, LPG_synthase_C, Beta_elim_lyase in a row"""
    return clause in ("at-most-one-carrier-protein", "modifications-before-carrier-protein") \
        and _has_double_transporter(case)


def _f3_trans_at_without_ks(clause: str, case) -> bool:
    """a module counted as trans-AT (hence complete without loader) although its starter is not a KS:
    a C/SAT starter and a Trans-AT_docking domain in the same gene or across a same-strand junction"""
    if clause not in ("complete-only-with-required-parts", "merge-only-if-result-complete",
                      "modifications-before-carrier-protein"):
        return False
    groups = [list(seq) for seq in _all_gene_seqs(case)] + [list(up) + list(down) for up, down in _junctions(case)]
    for group in groups:
        labels = _labels(group)
        if clause == "modifications-before-carrier-protein" and "PKS_KR" not in labels:
            continue
        if "Trans-AT_docking" in labels and any(
                o_pure_starter(lab) and _kind(lab) != "KS" for lab in labels):
            return True
    return False


_RAW_CLASSES: Dict[str, Callable[[str, Any], bool]] = {
    "C14-F1": _f1_kr_after_terminated_trans_at,
    "C14-F2": _f2_double_transporter,
    "C14-F3": _f3_trans_at_without_ks,
}


def _base_clause(clause: str) -> str:
    return clause.split(" [", 1)[0]


def _bucket(clause: str, case) -> str:
    """Failures inside a known class are reported as '<clause> [<finding id>]': the driver keeps only
    the first 25 failures per clause name, and thousands of known ones would crowd out a new one."""
    for finding, predicate in _RAW_CLASSES.items():
        if predicate(clause, case):
            return f"{clause} [{finding}]"
    return clause


FINDING_CLASSES: Dict[str, Callable[[str, Any], bool]] = {
    finding: (lambda clause, case, _pred=predicate: _pred(_base_clause(clause), case))
    for finding, predicate in _RAW_CLASSES.items()
}
